"""Frame obligations about how objects are compared.

Several theories model objects as opaque values compared by identity (opcodes, blocks, errors) or as records with the
structural equality a dataclass generates (modules).  That is only right while the class does not define
__eq__/__hash__/__ne__ by hand (and, for dataclasses, keeps eq=True).  One obligation per class, checked on the AST.
"""
import ast

import z3

from engine import source
from engine.core import Obligation


def equality_frames(pid, repo, spec):
  """spec: list of (relpath, class name, 'identity' | 'dataclass')."""
  out = []
  for rel, cls, mode in spec:
    m = source.load(repo, rel)
    node = None
    for n in ast.walk(m.tree):
      if isinstance(n, ast.ClassDef) and n.name == cls:
        node = n
        break
    bad = []
    if node is None:
      bad.append('class not found')
    else:
      chain = [node]
      # in-module base classes
      for b in node.bases:
        bn = b.id if isinstance(b, ast.Name) else None
        for n in ast.walk(m.tree):
          if isinstance(n, ast.ClassDef) and n.name == bn:
            chain.append(n)
      for c in chain:
        for st in c.body:
          if isinstance(st, ast.FunctionDef) and st.name in ('__eq__', '__hash__', '__ne__'):
            bad.append('%s defines %s' % (c.name, st.name))
          if isinstance(st, ast.Assign) and any(isinstance(t, ast.Name) and t.id in ('__eq__', '__hash__', '__ne__') for t in st.targets):
            bad.append('%s assigns %s' % (c.name, ast.unparse(st.targets[0])))
      decos = [ast.unparse(d) for d in node.decorator_list]
      is_dc = any('dataclass' in d for d in decos)
      if mode == 'dataclass':
        if not is_dc:
          bad.append('no longer a dataclass')
        for d in node.decorator_list:
          if isinstance(d, ast.Call):
            for kw in d.keywords:
              if kw.arg == 'eq' and ast.unparse(kw.value) != 'True':
                bad.append('eq=%s' % ast.unparse(kw.value))
              if kw.arg == 'unsafe_hash' and ast.unparse(kw.value) != 'False':
                bad.append('unsafe_hash=%s' % ast.unparse(kw.value))
      elif is_dc and not any('eq=False' in d for d in decos):
        bad.append('became a dataclass with generated equality')
    o = Obligation('%s/%s::%s/frame#%s-equality' % (pid, rel, cls, mode), 'frame', [], z3.BoolVal(not bad),
                   line=getattr(node, 'lineno', None),
                   detail='%s objects are compared %s, as the theory assumes%s' % (
                       cls, 'by identity (no __eq__/__hash__ of their own)' if mode == 'identity' else 'structurally (generated dataclass equality)',
                       ': ' + ', '.join(bad) if bad else ''))
    o.owner = '%s::%s' % (rel, cls)
    o.prechecked = True
    o.status = 'proved' if not bad else 'sat'
    o.backend = 'frame-scan'
    o.model = None if not bad else '; '.join(bad)
    o.undecided_if_no_witness = True
    out.append(o)
  return out
