"""./check <Cxx>: prove the contracts of one property against the current tree."""
import argparse
import importlib
import json
import os
import subprocess
import sys
import time
import traceback

from engine import report
from engine import run
from engine import source
from engine.core import ContractMisfit, Unsupported

VERIF = report.VERIF
NATIVE_PY = '/venv/bin/python'


def native_call(pid, repo, mode, payload=None, timeout=1800):
  """Run /verif/native/<pid>.py under the repo's interpreter; JSON in/out."""
  script = os.path.join(VERIF, 'native', pid.lower() + '_native.py')
  if not os.path.exists(script):
    return None
  env = dict(os.environ, PYTHONPATH=repo, PYTHONDONTWRITEBYTECODE='1')
  p = subprocess.run([NATIVE_PY, '-B', script, mode, repo],
                     input=json.dumps(payload or {}), capture_output=True,
                     text=True, timeout=timeout, env=env, cwd='/')
  if p.returncode != 0:
    raise RuntimeError('native %s %s failed: %s' % (pid, mode, (p.stderr or p.stdout)[-2000:]))
  return json.loads(p.stdout.strip().splitlines()[-1])


def main(argv=None):
  import faulthandler, signal
  faulthandler.register(signal.SIGUSR1, all_threads=True)   # kill -USR1 <pid> dumps the stacks of a stuck checker
  ap = argparse.ArgumentParser()
  ap.add_argument('pid')
  ap.add_argument('--tier', default=os.environ.get('VERIF_TIER', 'quick'))
  ap.add_argument('--repo', default='/repo')
  ap.add_argument('--replay')
  ap.add_argument('--update-lock', action='store_true')
  ap.add_argument('--timeout', type=int, default=0)
  args = ap.parse_args(argv)
  pid = args.pid.upper()
  seed = int(os.environ.get('VERIF_SEED', '0') or 0)
  t0 = time.time()
  try:
    mod = importlib.import_module('contracts.' + pid.lower())
    if hasattr(mod, 'main'):
      return mod.main(args, seed)
    return generic(mod, pid, args, seed, t0)
  except ContractMisfit as e:
    print('UNDECIDED property=%s reason=contract-misfit: %s' % (pid, e))
    return 2
  except Unsupported as e:
    print('CHECKER-ERROR property=%s unsupported construct: %s' % (pid, e))
    traceback.print_exc()
    return 3
  except Exception as e:  # pylint: disable=broad-except
    print('CHECKER-ERROR property=%s %s: %s' % (pid, type(e).__name__, e))
    traceback.print_exc()
    return 3


def generic(mod, pid, args, seed, t0):
  repo = os.path.abspath(args.repo)
  if args.replay:
    payload = json.load(open(args.replay))
    print('replaying %s (%s) against %s' % (args.replay, payload.get('kind'), repo))
    if payload.get('kind') == 'failed-obligation':
      print('obligation %s [%s]: %s' % (payload['obligation'], payload['status'], payload['detail']))
      print('solver output: %s' % str(payload.get('solver_output'))[:2000])
    res = native_call(pid, repo, 'sweep', dict(tier='quick', seed=seed, witness=payload.get('witness')))
    vs = (res or {}).get('violations', [])
    for w in vs[:5]:
      print('REPRODUCED: %s' % json.dumps(w)[:800])
    if not vs:
      print('native sweep finds no failing input on this tree')
    return 1 if vs else 0
  if hasattr(mod, 'precheck'):
    mod.precheck(repo)
  import inspect
  T = mod.build(repo) if inspect.signature(mod.build).parameters else mod.build()
  tmo = args.timeout or (120 if args.tier == 'thorough' else 30)
  try:
    if isinstance(T, list):
      # several theories for one property (different models of the same classes): verified one after the other
      Ts = T
      per_fn, canaries, wall, ex = [], [], 0.0, None
      for Ti in Ts:
        pf, cn, w, ex_i = run.verify_theory(Ti, repo, timeout_s=tmo)
        per_fn += pf
        canaries += cn
        wall += w
        if ex is None:
          ex = ex_i
        else:
          ex.missing_anchors += ex_i.missing_anchors
      T = _Merged(Ts)
    else:
      per_fn, canaries, wall, ex = run.verify_theory(T, repo, timeout_s=tmo)
  except (ContractMisfit, Unsupported) as e:
    return proof_unavailable(pid, repo, args, seed, e)
  except (AttributeError, TypeError, KeyError, IndexError, NotImplementedError, z3types_error()) as e:
    # the VC generator itself tripped over a construct it does not model (an engine limitation, not a verdict):
    # same treatment as an unsupported construct -- the native search still runs
    traceback.print_exc()
    return proof_unavailable(pid, repo, args, seed, Unsupported('engine error %s: %s' % (type(e).__name__, e)))
  except _Never as e:
    # The code under contract changed shape (new loop without invariant, construct outside the
    # subset, ...): no obligation can be generated, so nothing is proved or refuted.  The contract
    # is still executable: run the native witness search on the real code; a failing input is a
    # violation, otherwise the outcome stays undecided (2) / checker error (3).
    return proof_unavailable(pid, repo, args, seed, e)
  lock = report.load_lock()
  known = report.load_known()
  obls = [o for f in per_fn for o in f['obligations']]
  if hasattr(mod, 'extra_obligations'):
    from engine import smt
    extra = mod.extra_obligations(repo)
    smt.discharge([o for o in extra if not getattr(o, 'prechecked', False)], timeout_s=5, phase2=False)
    obls += extra
  names = [o.name for o in obls]
  failed = [o for o in obls if o.status != 'proved']
  problems = []     # (exit code, message)
  # a solver process that had to be killed at the wall-clock backstop says nothing about the code
  for o in [o for o in failed if getattr(o, 'killed', False)]:
    problems.append((2, 'UNDECIDED property=%s obligation=%s reason=%s' % (pid, o.name, o.reason)))
  failed = [o for o in failed if not getattr(o, 'killed', False)]
  # vacuity guards
  for f in per_fn:
    if not f['obligations']:
      problems.append((2, 'UNDECIDED property=%s obligation=%s reason=zero obligations generated' % (pid, f['contract'].label)))
    if f['exits'] == 0:
      problems.append((2, 'UNDECIDED property=%s obligation=%s reason=no path reaches an exit' % (pid, f['contract'].label)))
  if getattr(T, 'axioms_contradictory', False):
    problems.append((3, 'CHECKER-ERROR property=%s the spec axioms are contradictory (every proof would be vacuous)' % pid))
  vacuous = []
  for c, os_ in canaries:
    if not os_:
      vacuous.append(c.label)
    elif all(o.status == 'proved' for o in os_):
      vacuous.append(c.label)
  for v in vacuous:
    problems.append((2, 'UNDECIDED property=%s obligation=%s reason=canary: `ensures False` is provable (contradictory assumptions)' % (pid, v)))
  locked = lock.get(pid)
  if args.update_lock:
    lock[pid] = sorted(names)
    json.dump(lock, open(os.path.join(VERIF, 'contracts', 'OBLIGATIONS.lock.json'), 'w'), indent=1)
    locked = lock[pid]
  if locked is not None:
    lost = sorted(set(locked) - set(names))
    # obligations are numbered per (function, kind); fewer than locked = lost coverage
    if lost and not failed:
      problems.append((2, 'UNDECIDED property=%s obligation=%s reason=%d locked obligation(s) no longer generated' % (pid, lost[0], len(lost))))

  # native stage: bounded stand-ins / spec validation / witness search
  native = None
  want_native = bool(failed) or args.tier == 'thorough' or getattr(mod, 'NATIVE_IN_QUICK', False)
  if want_native:
    try:
      native = native_call(pid, repo, 'sweep', dict(
          tier=args.tier, seed=seed,
          failing=[dict(name=o.name, kind=o.kind, detail=o.detail, owner=o.owner, site=getattr(o, 'site', None)) for o in failed]))
    except Exception as e:  # pylint: disable=broad-except
      problems.append((3, 'CHECKER-ERROR property=%s native stage: %s' % (pid, e)))
  violations = []
  known_lines = []
  if native:
    for w in native.get('violations', []):
      k = match_known(known, pid, w)
      if k:
        known_lines.append('KNOWN-FINDING: property=%s %s' % (pid, k))
      else:
        violations.append(w)
  replay_paths = []
  exit_code = 0
  if failed or violations:
    shas = {f['contract'].file: source.load(repo, f['contract'].file).sha256 for f in per_fn
            if f['contract'].label != 'spec-lemmas'}
    if violations:
      for w in violations[:5]:
        payload = dict(property=pid, kind='native-witness', witness=w, file_sha256=shas,
                       failed_obligations=[dict(name=o.name, status=o.status, detail=o.detail,
                                                solver=o.backend, model=o.model, reason=getattr(o, 'reason', ''))
                                           for o in failed])
        path = report.write_replay(pid, payload)
        replay_paths.append(path)
        print('VIOLATION property=%s replay=%s' % (pid, path))
        print('  witness: %s' % json.dumps(w)[:600])
      for o in failed:
        print('  failed obligation: %s [%s] %s' % (o.name, o.status, o.detail))
      exit_code = 1
    elif ex.missing_anchors:
      for msg in ex.missing_anchors:
        problems.append((2, 'UNDECIDED property=%s reason=contract-misfit: %s; %d obligation(s) no longer proved and the native search found no failing input' % (pid, msg, len(failed))))
    elif all(getattr(o, 'undecided_if_no_witness', False) for o in failed):
      for o in failed:
        problems.append((2, 'UNDECIDED property=%s obligation=%s reason=%s (native search found no failing input)' % (pid, o.name, o.detail)))
    else:
      for o in failed:
        payload = dict(property=pid, kind='failed-obligation', obligation=o.name,
                       obligation_kind=o.kind, detail=o.detail, line=o.line, status=o.status,
                       solver=o.backend, solver_output=o.model or getattr(o, 'reason', ''),
                       file_sha256=shas, smt2=report.smt_sample(o, 20000),
                       note='no failing input found by the native small-scope search')
        path = report.write_replay(pid, payload)
        replay_paths.append(path)
        print('VIOLATION property=%s replay=%s obligation=%s status=%s no-failing-input-found' % (
            pid, path, o.name, o.status))
      exit_code = 1
  if not failed and not violations:
    for msg in getattr(ex, 'missing_anchors', []):
      # an anchored lemma of the contract was never placed although everything verifies: a contract defect (would blur a later verdict)
      print('CHECKER-NOTE: %s' % msg)
  for line in known_lines:
    print(line)
  if exit_code == 0 and problems:
    exit_code = max(p[0] for p in problems)
  for _, msg in problems:
    print(msg)

  # evidence
  fns = []
  for f in per_fn:
    c = f['contract']
    sha = source.load(repo, c.file).sha256 if c.label != 'spec-lemmas' else None
    fns.append(dict(file=c.file, function=c.qualname, instance=c.instance, sha256=sha,
                    loops=len(c.loops), paths=f['paths'], exits=f['exits'],
                    obligations=len(f['obligations']),
                    discharged=len([o for o in f['obligations'] if o.status == 'proved']),
                    termination='not proved (partial correctness)'))
  trusted = [c.label + ' (assumed contract: ' + c.note + ')' for c in T.contracts.values() if not c.verify]
  samples = []
  for o in obls[:2]:
    samples.append(dict(name=o.name, kind=o.kind, detail=o.detail, smt2=report.smt_sample(o)))
  ev = dict(
      property_id=pid, tier=args.tier, seed=seed, level='proof',
      coverage=dict(
          obligations=len(obls), discharged=len([o for o in obls if o.status == 'proved']),
          checker_cmd='./check %s --tier %s' % (pid, args.tier),
          trusted_base=['engine/ (VC generator, DESIGN 2.3 semantics)', 'z3 %s' % _z3v(), 'cvc5 1.0.3 (fallback)'] + trusted,
          functions_under_contract=fns,
          per_obligation=[dict(name=o.name, kind=o.kind, status=o.status, backend=o.backend,
                               seconds=round(o.seconds, 4), rlimit=getattr(o, 'rlimit', 0), line=o.line, detail=o.detail) for o in obls],
          solver_seconds=round(sum(o.seconds for o in obls), 3),
          canaries=[dict(function=c.label, exits_checked=len(os_),
                         statuses=[o.status for o in os_]) for c, os_ in canaries],
          unverified_surround=getattr(mod, 'SURROUND', []),
          bounded_standins=(native or {}).get('bounded', []),
          spec_validation=(native or {}).get('spec_validation', []),
          samples=samples,
          known_findings=known_lines,
      ),
      assumptions=T.assumptions + getattr(mod, 'ASSUMPTIONS', []) + getattr(mod, 'FRAME_ASSUMPTIONS', []),
      wall_s=round(time.time() - t0, 2),
      violations=len(violations) + (len(failed) if not violations else 0),
  )
  report.write_evidence(pid, ev, scratch=(repo != '/repo'))
  print('%s: %d obligations, %d discharged, %d function(s), exit %d, %.1fs' % (
      pid, len(obls), ev['coverage']['discharged'], len(fns), exit_code, time.time() - t0))
  return exit_code


class _Never(Exception):
  pass


def z3types_error():
  import z3
  return z3.Z3Exception


class _Merged:
  """View of several theories of one property for reporting."""

  def __init__(self, Ts):
    self.contracts = {}
    self.assumptions = []
    for i, t in enumerate(Ts):
      for k, c in t.contracts.items():
        self.contracts[(i,) + tuple(k)] = c
      for a in t.assumptions:
        if a not in self.assumptions:
          self.assumptions.append(a)
    self.axioms_contradictory = any(getattr(t, 'axioms_contradictory', False) for t in Ts)


def proof_unavailable(pid, repo, args, seed, err):
  misfit = isinstance(err, ContractMisfit)
  line = ('UNDECIDED property=%s reason=contract-misfit: %s' % (pid, err)) if misfit else (
      'CHECKER-ERROR property=%s unsupported construct: %s' % (pid, err))
  native = None
  try:
    native = native_call(pid, repo, 'sweep', dict(tier=args.tier, seed=seed, failing=[
        dict(name='(no obligations generated)', kind='misfit', detail=str(err), owner='')]))
  except Exception as e:  # pylint: disable=broad-except
    print('CHECKER-ERROR property=%s native stage: %s' % (pid, e))
  known = report.load_known()
  vs, known_lines = [], []
  for w in (native or {}).get('violations', []):
    k = match_known(known, pid, w)
    if k:
      known_lines.append('KNOWN-FINDING: property=%s %s' % (pid, k))
    else:
      vs.append(w)
  for w in vs[:5]:
    path = report.write_replay(pid, dict(property=pid, kind='native-witness', witness=w,
                                         proof_status='no obligations could be generated: %s' % err))
    print('VIOLATION property=%s replay=%s' % (pid, path))
    print('  witness: %s' % json.dumps(w)[:600])
  for l in known_lines:
    print(l)
  print(line)
  if not vs:
    print('  (native search found no failing input on this tree)')
  ev = dict(property_id=pid, tier=args.tier, seed=seed, level='proof',
            coverage=dict(obligations=0, discharged=0, checker_cmd='./check %s --tier %s' % (pid, args.tier),
                          trusted_base=['engine/'], proof_status=line,
                          bounded_standins=(native or {}).get('bounded', [])),
            assumptions=[], violations=len(vs))
  report.write_evidence(pid, ev, scratch=(repo != '/repo'))
  return 1 if vs else (2 if misfit else 3)


def match_known(known, pid, witness):
  for k in known.get('known', []):
    if k.get('property') == pid and k.get('match') and all(
        witness.get(f) == v for f, v in k['match'].items()):
      return k['what']
  return None


def _z3v():
  import z3
  return z3.get_version_string()


if __name__ == '__main__':
  sys.exit(main())
