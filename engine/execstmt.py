"""Statement-level symbolic execution (DESIGN 2.3, control flow)."""
import ast

import z3

from engine import sorts as S
from engine import values as Vl
from engine.core import (Break_, Continue_, Loop, PathEnd, Raise_, Return_,
                         Unsupported, ContractMisfit, quick_check)
from engine.values import V

_LOG_NAMES = ('log', '_log', 'logging')


def assigned_names(nodes):
  """Names (and attribute paths as 'self.x') assigned anywhere in `nodes`."""
  out = set()
  for n in nodes:
    for sub in ast.walk(n):
      if isinstance(sub, (ast.Yield, ast.YieldFrom)):
        out.add('yielded')
      if isinstance(sub, (ast.Assign, ast.AugAssign, ast.AnnAssign, ast.For,
                          ast.NamedExpr, ast.With, ast.Delete)):
        tgts = []
        if isinstance(sub, ast.Assign):
          tgts = sub.targets
        elif isinstance(sub, ast.Delete):
          tgts = sub.targets
        elif isinstance(sub, ast.With):
          tgts = [i.optional_vars for i in sub.items if i.optional_vars]
        else:
          tgts = [sub.target]
        for t in tgts:
          for tt in ast.walk(t):
            if isinstance(tt, ast.Name) and isinstance(
                tt.ctx, (ast.Store, ast.Del)):
              out.add(tt.id)
            # x[...] = v / x.f = v / del x[..] mutate x
            if isinstance(tt, (ast.Subscript, ast.Attribute)):
              base = tt
              while isinstance(base, (ast.Subscript, ast.Attribute)):
                base = base.value
              if isinstance(base, ast.Name):
                out.add(base.id)
      elif isinstance(sub, ast.Call) and isinstance(sub.func, ast.Attribute):
        # method calls may mutate the receiver in place
        base = sub.func.value
        while isinstance(base, (ast.Subscript, ast.Attribute)):
          base = base.value
        if isinstance(base, ast.Name) and sub.func.attr in _MUTATORS:
          out.add(base.id)
  return out


def mutated_in_place(nodes):
  out = set()
  for n in nodes:
    for sub in ast.walk(n):
      if isinstance(sub, ast.Call) and isinstance(sub.func, ast.Attribute) and isinstance(
          sub.func.value, ast.Name) and sub.func.attr in _MUTATORS:
        out.add(sub.func.value.id)
      if isinstance(sub, (ast.Assign, ast.AugAssign, ast.Delete)):
        tg = sub.targets if not isinstance(sub, ast.AugAssign) else [sub.target]
        for t in tg:
          if isinstance(t, ast.Subscript) and isinstance(t.value, ast.Name):
            out.add(t.value.id)
  return out


def alias_mods(nodes):
  """Holders whose elements are mutated through a loop target (`for t in H: t.mutate()`)."""
  mut = mutated_in_place(nodes)
  out = set()
  for n in nodes:
    for sub in ast.walk(n):
      if isinstance(sub, ast.For) and isinstance(sub.iter, ast.Name) and isinstance(
          sub.target, ast.Name) and sub.target.id in mut:
        out.add(sub.iter.id)
      # for k, v in H.items(): v.mutate()   /   for v in H.values(): v.mutate()
      if (isinstance(sub, ast.For) and isinstance(sub.iter, ast.Call) and isinstance(sub.iter.func, ast.Attribute)
          and sub.iter.func.attr in ('items', 'values') and isinstance(sub.iter.func.value, ast.Name)):
        tnames = {t.id for t in ast.walk(sub.target) if isinstance(t, ast.Name)}
        if tnames & mut:
          out.add(sub.iter.func.value.id)
  return out


_MUTATORS = ('add', 'append', 'pop', 'update', 'remove', 'discard', 'extend',
             'insert', 'clear', 'setdefault', 'popleft', 'sort', 'extendleft')


class StmtMixin:
  """exec_* methods; `self` is an engine.exec.Ex."""

  def exec_block(self, stmts):
    for st in stmts:
      self.exec_stmt(st)

  def exec_stmt(self, st):
    m = getattr(self, 'st_' + type(st).__name__, None)
    if m is None:
      raise Unsupported('statement %s at line %d' % (type(st).__name__, st.lineno))
    self.cur_line = st.lineno
    m(st)
    c = self.cur_contract
    if c is not None and c.asserts and self.depth == 0 and not isinstance(
        st, (ast.For, ast.While, ast.If, ast.Try)):
      src = ast.unparse(st)
      for anchor, specs in c.asserts.items():
        if src.startswith(anchor):
          self.used_anchors.add(anchor)
          for j, sp in enumerate(specs):
            self.oblige(self.spec(sp), 'lemma', 'after `%s` [%d]: %s' % (anchor, j, sp))

  # -- simple statements ----------------------------------------------------

  def st_Expr(self, st):
    if isinstance(st.value, ast.Constant):
      return  # docstring
    if self._is_log_call(st.value):
      return
    if isinstance(st.value, ast.Yield) and getattr(self, 'is_generator', False) and self.depth == 0:
      ys = self.env['yielded']
      x = self.coerce(self.eval(st.value.value), ys.sort.elem)
      n = ys.sort.len(ys.t)
      newarr = z3.Store(ys.sort.arr(ys.t), n, x.t)
      self.env['yielded'] = V(ys.sort, ys.sort.mk(newarr, n + 1))
      if getattr(self.theory, 'append_frame_trigger', False):
        # redundant consequence of the array theory, triggered on the OLD list's elements (as for list.append)
        p_ = z3.FreshConst(z3.IntSort(), 'p')
        self.assume(z3.ForAll([p_], z3.Implies(z3.And(0 <= p_, p_ < n), z3.Select(newarr, p_) == z3.Select(ys.sort.arr(ys.t), p_)),
                              patterns=[z3.Select(ys.sort.arr(ys.t), p_)]))
      return
    self.eval(st.value)

  def _is_log_call(self, e):
    if isinstance(e, ast.Call):
      f = e.func
      while isinstance(f, ast.Attribute):
        f = f.value
      return isinstance(f, ast.Name) and f.id in _LOG_NAMES
    return False

  def st_Pass(self, st):
    pass

  def st_Assign(self, st):
    val = self.eval(st.value)
    for t in st.targets:
      self.assign(t, val)

  def st_AnnAssign(self, st):
    if st.value is not None:
      self.assign(st.target, self.eval(st.value))

  def st_AugAssign(self, st):
    cur = self.eval(_load(st.target))
    rhs = self.eval(st.value)
    self.assign(st.target, self.binop(st.op, cur, rhs, st, inplace=True))

  def st_Return(self, st):
    raise Return_(self.eval(st.value) if st.value is not None else Vl.NONE)

  def st_Break(self, st):
    raise Break_()

  def st_Continue(self, st):
    raise Continue_()

  def st_Assert(self, st):
    c = self.truth(self.eval(st.test))
    cc = self.cur_contract
    if cc is not None and self.depth == 0 and 'AssertionError' in cc.may_raise:
      # the contract does not claim that this assert holds: a failing assert is an
      # exceptional exit about which nothing is promised (listed as unproved in the evidence)
      if not self.branch(c, st, tag='assert'):
        raise Raise_('AssertionError', 'assert at line %d' % st.lineno)
      return
    self.oblige(c, 'safety', 'assert at line %d' % st.lineno)

  def st_Raise(self, st):
    if st.exc is None:
      raise Raise_(self.current_exc or 'Exception')
    e = st.exc
    if isinstance(e, ast.Call):
      e = e.func
    name = e.attr if isinstance(e, ast.Attribute) else e.id
    raise Raise_(name)

  def st_Delete(self, st):
    for t in st.targets:
      if isinstance(t, ast.Subscript):
        cont = self.eval(t.value)
        idx = self.eval(t.slice)
        self.store_back(t.value, self.del_item(cont, idx, t))
      else:
        raise Unsupported('del of %s' % ast.dump(t))

  def st_If(self, st):
    c = self.truth(self.eval(st.test))
    if self.branch(c, st):
      self.exec_block(st.body)
    else:
      self.exec_block(st.orelse)

  def st_Try(self, st):
    if st.finalbody:
      raise Unsupported('try/finally at line %d' % st.lineno)
    try:
      self.exec_block(st.body)
    except Raise_ as r:
      for h in st.handlers:
        names = []
        if h.type is None:
          names = ['BaseException']
        elif isinstance(h.type, ast.Tuple):
          names = [_exc_name(x) for x in h.type.elts]
        else:
          names = [_exc_name(h.type)]
        if any(self.theory.exc_is(r.excname, n) for n in names):
          saved = self.current_exc
          self.current_exc = r.excname
          try:
            self.exec_block(h.body)
          finally:
            self.current_exc = saved
          return
      raise
    else:
      self.exec_block(st.orelse)

  def st_FunctionDef(self, st):
    # a local helper: loop-free, no decorators, no rebinding of enclosing names (checked), executed in place at each call
    if st.decorator_list or any(isinstance(n, (ast.For, ast.While, ast.Try, ast.With, ast.Yield, ast.YieldFrom, ast.Nonlocal, ast.Global,
                                               ast.FunctionDef, ast.Lambda)) for b in st.body for n in ast.walk(b)):
      raise Unsupported('nested def %s at line %d is outside the supported shape' % (st.name, st.lineno))
    from engine.values import Closure
    self.env[st.name] = Closure(st)

  # -- loops ----------------------------------------------------------------

  def _loop_contract(self, st):
    ordinal = self.loop_ordinals[id(st)]
    lc = self.cur_contract.loops.get(ordinal)
    if lc is None:
      raise ContractMisfit('%s: loop #%d (line %d) has no invariant' % (
          self.cur_contract.label, ordinal, st.lineno))
    return ordinal, lc

  def _havoc(self, names, body=()):
    # names that the loop body only mutates in place (never rebinds) keep their alias origin:
    # at every iteration they still denote the object they denoted on entry
    rebound = set()
    for st in body:
      for sub in ast.walk(st):
        if isinstance(sub, ast.Name) and isinstance(sub.ctx, (ast.Store, ast.Del)):
          rebound.add(sub.id)
    for n in sorted(names):
      if n in self.env:
        old = self.env[n]
        nv = self.havoc_value(old, n)
        if (isinstance(old, V) and isinstance(nv, V) and old.origin is not None and old.origin[0] == 'item'
            and n not in rebound and nv is not old):
          nv = V(nv.sort, nv.t, origin=old.origin)
        self.env[n] = nv

  def _check_inv(self, lc, kind, ordinal, extra_env):
    saved = dict(self.env)
    self.env.update(extra_env)
    try:
      for j, inv in enumerate(lc.inv):
        # `aux:` marks a clause that only supports helper (`aux:`) postconditions: failing alone it is undecided, not a violation
        aux = inv.startswith('aux:')
        g = self.spec(inv[4:] if aux else inv)
        self.oblige(g, kind, 'loop#%d inv[%d]%s: %s' % (ordinal, j, ' (helper clause)' if aux else '', inv), aux=aux)
    finally:
      for k in extra_env:
        if k in saved:
          self.env[k] = saved[k]
        else:
          self.env.pop(k, None)

  def _assume_inv(self, lc, extra_env):
    self.env.update(extra_env)
    for inv in lc.inv:
      self.assume(self.spec(inv[4:] if inv.startswith('aux:') else inv))

  def _ghost_run(self, stmts):
    """Ghost assignments `name = <spec expr>` (exist only in the VCs)."""
    for text in stmts:
      node = ast.parse(text.strip()).body[0]
      if not (isinstance(node, ast.Assign) and isinstance(node.targets[0], ast.Name)):
        raise Unsupported('ghost statement must be `name = expr`: %s' % text)
      saved = self.pure_mode
      self.pure_mode = True
      try:
        val = self.eval(node.value)
      finally:
        self.pure_mode = saved
      name = node.targets[0].id
      ls = self.local_sort(name)
      if ls is not None:
        val = self.coerce(val, ls)
      self.env[name] = val

  def _declare_locals(self, mods):
    """Declared (typed) locals that are assigned in the loop but unbound so far get a
    havocked value (UnboundLocalError is not modelled: documented assumption)."""
    c = self.cur_contract
    if c is None or self.depth:
      return
    for n in mods:
      if n not in self.env and n in c.ghost:
        v = V(c.ghost[n], c.ghost[n].fresh(n))
        self.env[n] = v
        self.assume_wf(v)

  def _heap_frame(self, ordinal, mods):
    """Heap fields that the loop contract does not declare as modified must be untouched by the body."""
    head = self.loop_head.get(ordinal, {})
    for n, v in self.env.items():
      if n.startswith('$H.') and n not in mods and n in head and isinstance(v, V) and not v.t.eq(head[n].t):
        raise ContractMisfit('%s: heap field %s is written in loop #%d but is not in the loop contract\'s havoc list' % (
            self.cur_contract.label, n, ordinal))

  def _end_of_iteration(self, lc, ordinal):
    self._ghost_run(lc.ghost_end)
    for j, lem in enumerate(lc.lemmas):
      self.oblige(self.spec(lem), 'lemma', 'loop#%d lemma[%d]: %s' % (ordinal, j, lem))

  def st_For(self, st):
    ordinal, lc = self._loop_contract(st)
    self._ghost_run(lc.ghost_init)
    it = self.eval(st.iter)
    seq = self.iter_to_seq(it, st)          # V of Seq sort (ghost order for sets/dicts)
    ss = seq.sort
    ghost = {}
    if lc.seq:
      ghost[lc.seq] = seq
    idx_name = lc.index or ('_i%d' % ordinal)
    mods = assigned_names(st.body) | assigned_names([ast.Assign(
        targets=[st.target], value=ast.Constant(0))]) | alias_mods([st])
    mods |= {n for n in self._ghost_names(lc)}
    mods |= set(lc.havoc)
    live = isinstance(st.iter, ast.Name) and st.iter.id in mods and isinstance(it, V) and isinstance(it.sort, S.Seq)
    self.loop_entry[ordinal] = self._snap_env()
    # 1. invariant holds on entry (index 0)
    g0 = dict(ghost)
    g0[idx_name] = Vl.ival(0)
    self._check_inv(lc, 'inv.init', ordinal, g0)
    which = self.dec.choose(2)
    self._havoc(mods, [st])
    self._declare_locals(mods)
    i = z3.FreshConst(z3.IntSort(), idx_name)
    gi = dict(ghost)
    gi[idx_name] = V(S.INT, i)
    if live:
      # Python iterates the live list: element i is read from the current list
      seq = self.env[st.iter.id]
    n = ss.len(seq.t)
    if which == 0:
      # 2. arbitrary iteration
      self.assume(z3.And(0 <= i, i < n))
      self._assume_inv(lc, gi)
      self.loop_head[ordinal] = self._snap_env()
      elem = V(ss.elem, ss.at(seq.t, i))
      if isinstance(st.iter, ast.Name) and isinstance(ss.elem, (S.Seq, S.SetOf, S.DictOf)):
        elem = V(ss.elem, elem.t, origin=('elem', st.iter.id, i))
      self.assign(st.target, elem)
      try:
        self.exec_block(st.body)
      except Continue_:
        pass
      except Break_:
        return  # continues after the loop, skipping orelse
      self._end_of_iteration(lc, ordinal)
      g1 = dict(ghost)
      g1[idx_name] = V(S.INT, i + 1)
      self._check_owned(st, mods)
      self._heap_frame(ordinal, mods)
      self._check_inv(lc, 'inv.preserve', ordinal, g1)
      raise PathEnd()
    # 3. exit: all elements consumed
    self.assume(i == n)
    self._assume_inv(lc, gi)
    self.exec_block(st.orelse)

  def _ghost_names(self, lc):
    out = []
    for text in list(lc.ghost_end):   # ghost_init-only names are loop constants
      out.append(text.split('=')[0].strip())
    return out

  def _snap_env(self):
    return {k: self.snapshot(v) for k, v in self.env.items()}

  def _check_owned(self, st, mods):
    """Ownership invariant of loop-carried containers that the loop mutates in place.

    At the loop head such a variable is assumed to be owned by the function; an
    iteration must not leave it aliasing immutable/shared data, because a later
    iteration's in-place mutation would then corrupt that data.
    """
    mutated = set()
    for sub in ast.walk(st):
      if isinstance(sub, ast.Call) and isinstance(sub.func, ast.Attribute) and isinstance(
          sub.func.value, ast.Name) and sub.func.attr in _MUTATORS:
        mutated.add(sub.func.value.id)
      if isinstance(sub, (ast.Assign, ast.AugAssign, ast.Delete)):
        tg = sub.targets if not isinstance(sub, ast.AugAssign) else [sub.target]
        for t in tg:
          if isinstance(t, ast.Subscript) and isinstance(t.value, ast.Name):
            mutated.add(t.value.id)
    for n in sorted(mods & mutated):
      v = self.env.get(n)
      if isinstance(v, V) and v.origin is not None and v.origin[0] == 'immutable':
        self.oblige(z3.BoolVal(False), 'frame',
                    'loop-carried %s is mutated in place by the loop but aliases the %s of an immutable %s '
                    'at the end of an iteration' % (n, v.origin[2], v.origin[1]))

  def st_While(self, st):
    ordinal, lc = self._loop_contract(st)
    self._ghost_run(lc.ghost_init)
    mods = assigned_names(st.body) | alias_mods([st]) | set(self._ghost_names(lc)) | set(lc.havoc)
    self.loop_entry[ordinal] = self._snap_env()
    self._check_inv(lc, 'inv.init', ordinal, {})
    which = self.dec.choose(2)
    self._havoc(mods, st.body)
    self._declare_locals(mods)
    self._assume_inv(lc, {})
    c = self.truth(self.eval(st.test))
    if which == 0:
      self.assume(c)
      self.loop_head[ordinal] = self._snap_env()
      try:
        self.exec_block(st.body)
      except Continue_:
        pass
      except Break_:
        return
      self._end_of_iteration(lc, ordinal)
      self._check_owned(st, mods)
      self._heap_frame(ordinal, mods)
      self._check_inv(lc, 'inv.preserve', ordinal, {})
      raise PathEnd()
    if z3.is_true(z3.simplify(c)):
      raise PathEnd()   # `while True`: the loop is only left by break/return/raise
    self.assume(z3.Not(c))
    self.exec_block(st.orelse)


def _load(t):
  """Copy of an assignment target usable as an expression."""
  t2 = ast.parse(ast.unparse(t), mode='eval').body
  return ast.copy_location(t2, t)


def _exc_name(e):
  return e.attr if isinstance(e, ast.Attribute) else e.id
