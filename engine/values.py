"""Run-time (symbolic) values of the executor."""
import z3

from engine import sorts as S


class V:
  """A z3-backed symbolic value of a given Sort."""
  __slots__ = ('sort', 't', 'origin', 'lit')

  def __init__(self, sort, t, origin=None, lit=None):
    self.sort = sort
    self.t = t
    self.origin = origin  # lvalue path this mutable value was read from
    self.lit = lit        # for sequence literals: the list of element values

  def __repr__(self):
    return 'V(%s, %s)' % (self.sort, self.t)


class PyNone:
  def __repr__(self):
    return 'None'


NONE = PyNone()


class PyStr:
  """A string literal (kept concrete until it meets a symbolic Str)."""

  def __init__(self, s):
    self.s = s

  def __repr__(self):
    return 'PyStr(%r)' % self.s


class Sentinel:
  """A unique Python object such as NotImplemented (compared by identity)."""

  def __init__(self, name):
    self.name = name

  def __repr__(self):
    return self.name


class PyTuple:
  """A Python-level tuple/list of values of mixed kinds (unpacking, isinstance)."""

  def __init__(self, items):
    self.items = list(items)


class Obj:
  """A mutable object with named fields (by reference)."""

  def __init__(self, clsname, module, fields=None):
    self.clsname = clsname
    self.module = module
    self.fields = dict(fields or {})

  def __repr__(self):
    return 'Obj(%s)' % self.clsname


class ClassRef:
  def __init__(self, module, name):
    self.module = module
    self.name = name

  def __repr__(self):
    return 'ClassRef(%s:%s)' % (self.module.relpath, self.name)


class FuncRef:
  def __init__(self, module, qualname, bound_self=None, bound_cls=None):
    self.module = module
    self.qualname = qualname
    self.bound_self = bound_self
    self.bound_cls = bound_cls

  def __repr__(self):
    return 'FuncRef(%s:%s)' % (self.module.relpath, self.qualname)


class Closure:
  """A function defined inside the function under verification (`def keep(x): ...`): called by executing its
  body in place with the enclosing variables as they are at the call (it may read, not rebind, them)."""

  def __init__(self, fdef):
    self.fdef = fdef

  def __repr__(self):
    return 'Closure(%s)' % self.fdef.name


class ModuleRef:
  def __init__(self, module=None, dotted=None):
    self.module = module
    self.dotted = dotted


class Builtin:
  """A modelled builtin / spec function implemented in Python over values."""

  def __init__(self, name, fn, needs_ex=False):
    self.name = name
    self.fn = fn
    self.needs_ex = needs_ex


class BoundMethod:
  def __init__(self, recv, name, lval=None):
    self.recv = recv
    self.name = name
    self.lval = lval  # AST of the receiver expression (for in-place mutation)


def ival(n):
  return V(S.INT, z3.IntVal(n))


def bval(b):
  return V(S.BOOL, z3.BoolVal(bool(b)))
