"""Expression-level symbolic evaluation."""
import ast

import z3

from engine import sorts as S
from engine import values as Vl
from engine.core import Raise_, Unsupported, ContractMisfit
from engine.values import V, NONE, PyStr, PyTuple, Obj, ClassRef, FuncRef, ModuleRef, Builtin, BoundMethod


class ExprMixin:

  def eval(self, e):
    m = getattr(self, 'ev_' + type(e).__name__, None)
    if m is None:
      raise Unsupported('expression %s at line %d' % (
          type(e).__name__, getattr(e, 'lineno', -1)))
    return m(e)

  # -- atoms ----------------------------------------------------------------

  def ev_Constant(self, e):
    v = e.value
    if v is None:
      return NONE
    if isinstance(v, bool):
      return Vl.bval(v)
    if isinstance(v, int):
      return Vl.ival(v)
    if isinstance(v, str):
      return PyStr(v)
    raise Unsupported('constant %r' % (v,))

  def ev_JoinedStr(self, e):
    # an f-string: some string (message text); its parts are evaluated for their obligations only
    for part in e.values:
      if isinstance(part, ast.FormattedValue):
        self.eval(part.value)
    return V(S.STR, S.STR.fresh('fstring'))

  def ev_Name(self, e):
    return self.lookup(e.id, e)

  def lookup(self, name, node=None):
    if name in self.env:
      return self.env[name]
    if name in self.spec_env:
      return self.spec_env[name]
    if name in self.theory.symbols:
      return self.theory.symbols[name]
    mod = self.cur_module
    v = self.module_name(mod, name)
    if v is not None:
      return v
    if name in self.builtins:
      return self.builtins[name]
    if self.pure_mode and name in getattr(self, 'path_ghosts', {}):
      return self.path_ghosts[name]
    if self.pure_mode and getattr(self, 'top_contract', None) is not None and name in self.top_contract.ghost:
      # a declared ghost variable that has no value on this path (e.g. the ghost result of a callee that was not
      # reached): an arbitrary value of its sort
      gs = self.top_contract.ghost[name]
      v = V(gs, gs.fresh('unset_' + name))
      self.env[name] = v
      return v
    raise Unsupported('unknown name %r (line %s)' % (
        name, getattr(node, 'lineno', '?')))

  def module_name(self, mod, name):
    key = (mod.relpath, name)
    if key in self.modcache:
      return self.modcache[key]
    v = None
    if name in mod.defs and '.' not in name:
      node = mod.defs[name]
      v = ClassRef(mod, name) if isinstance(node, ast.ClassDef) else FuncRef(mod, name)
    elif name in mod.assigns:
      saved = (self.cur_module, self.env)
      self.cur_module, self.env = mod, {}
      try:
        v = self.eval(mod.assigns[name])
      finally:
        self.cur_module, self.env = saved
    elif name in mod.imports:
      imp = mod.imports[name]
      from engine import source
      if imp[0] == 'module':
        rp = source.dotted_to_relpath(self.repo, imp[1])
        v = ModuleRef(source.load(self.repo, rp) if rp else None, imp[1])
      else:
        dotted = '%s.%s' % (imp[1], imp[2])
        rp = source.dotted_to_relpath(self.repo, dotted)
        if rp:
          v = ModuleRef(source.load(self.repo, rp), dotted)
        else:
          rp = source.dotted_to_relpath(self.repo, imp[1])
          if rp:
            v = self.module_name(source.load(self.repo, rp), imp[2])
          else:
            v = self.builtins.get(dotted) or ModuleRef(None, dotted)   # `from lib import f` with a modelled f
    if v is not None:
      self.modcache[key] = v
    return v

  def ev_Tuple(self, e):
    return PyTuple([self.eval(x) for x in e.elts])

  def ev_List(self, e):
    items = [self.eval(x) for x in e.elts]
    if not items:
      return Vl.PyTuple([])  # typed lazily at first use
    return self.seq_of(items)

  def ev_Dict(self, e):
    if not e.keys:
      return Vl.PyTuple([])  # typed lazily (contract.ghost)
    ks = [self.eval(k) for k in e.keys]
    vs = [self.eval(v) for v in e.values]
    if not all(isinstance(x, V) for x in ks + vs):
      raise Unsupported('dict literal with non-symbolic entries')
    ds = S.DictOf(ks[0].sort, vs[0].sort)
    t = ds.empty()
    for k, v in zip(ks, vs):
      t = ds.put(t, k.t, v.t)
    return V(ds, t)

  def seq_of(self, items, sort=None):
    items = [self.coerce(i, sort) if sort else i for i in items]
    if sort is None:
      if not all(isinstance(i, V) for i in items):
        return PyTuple(items)
      sort = items[0].sort
    ss = S.Seq(sort)
    return V(ss, ss.of([i.t for i in items]), lit=list(items))

  # -- coercions ------------------------------------------------------------

  def coerce(self, v, sort):
    """Convert a Python-level value to a V of the given sort."""
    if isinstance(v, V):
      if v.sort is sort:
        return v
      hook = self.theory.coercions.get((v.sort.name, sort.name))
      if hook:
        r = hook(self, v)
        return V(r.sort, r.t, origin=v.origin)
      if isinstance(sort, S.Opt) and v.sort is sort.inner:
        return V(sort, sort.some(v.t))
      if isinstance(v.sort, S.Opt) and v.sort.inner is sort:
        self.oblige(z3.Not(v.sort.is_none(v.t)), 'safety', 'value is not None')
        return V(sort, v.sort.val(v.t))
      raise Unsupported('cannot coerce %s to %s' % (v.sort, sort))
    if v is NONE and isinstance(sort, S.Opt):
      return V(sort, sort.none())
    if isinstance(v, PyStr):
      if sort is S.STR:
        return V(S.STR, S.STR.literal(v.s))
      if isinstance(sort, S.Opt) and sort.inner is S.STR:
        return V(sort, sort.some(S.STR.literal(v.s)))
    if isinstance(v, PyTuple):
      if isinstance(sort, S.Seq):
        ss = sort
        its = [self.coerce(i, ss.elem) for i in v.items]
        return V(ss, ss.of([i.t for i in its]), lit=its)
      if isinstance(sort, S.Tup):
        return V(sort, sort.make([self.coerce(i, s).t
                                  for i, s in zip(v.items, sort.elems)]))
      if isinstance(sort, S.SetOf) and not v.items:
        return V(sort, sort.empty())
      if isinstance(sort, S.DictOf) and not v.items:
        return V(sort, sort.empty())
    raise Unsupported('cannot coerce %r to %s' % (v, sort))

  def truth(self, v):
    """Python truthiness as a z3 Bool."""
    if isinstance(v, V):
      s = v.sort
      if s is S.BOOL:
        return v.t
      if s is S.INT:
        return v.t != 0
      if isinstance(s, S.Seq):
        return s.len(v.t) > 0
      if isinstance(s, S.SetOf):
        return z3.Not(s.is_empty(v.t))
      if isinstance(s, S.DictOf):
        x = s.key.fresh('x')
        return z3.Exists([x], s.has(v.t, x))
      if isinstance(s, S.Opt):
        if s.inner is S.STR or isinstance(s.inner, (S.Seq, S.SetOf, S.DictOf)) or s.inner in (S.INT, S.BOOL):
          return z3.And(z3.Not(s.is_none(v.t)),
                        self.truth(V(s.inner, s.val(v.t))))
        return z3.Not(s.is_none(v.t))
      if s is S.STR:
        return v.t != S.STR.literal('')
      tm = self.theory.attr_models.get((s.name, '__bool__'))
      if tm:
        return tm(self, v)
      if isinstance(s, (S.Adt, S.Rec, S.Uninterp)):
        return z3.BoolVal(True)
    if v is NONE:
      return z3.BoolVal(False)
    if isinstance(v, PyStr):
      return z3.BoolVal(bool(v.s))
    if isinstance(v, PyTuple):
      return z3.BoolVal(bool(v.items))
    if isinstance(v, (Obj, ClassRef, FuncRef)):
      return z3.BoolVal(True)
    raise Unsupported('truth of %r' % (v,))

  # -- operators ------------------------------------------------------------

  def ev_BoolOp(self, e):
    # values are used as booleans only (checked: operands have Bool truth)
    vals = e.values
    first = self.eval(vals[0])
    t = self.truth(first)
    if len(vals) == 1:
      return V(S.BOOL, t)
    rest = ast.BoolOp(op=e.op, values=vals[1:]) if len(vals) > 2 else vals[1]
    ast.copy_location(rest, e)
    ts = z3.simplify(t)
    if (isinstance(e.op, ast.And) and z3.is_false(ts)) or (isinstance(e.op, ast.Or) and z3.is_true(ts)):
      return first      # short circuit decided statically: the rest is not evaluated (as in Python)
    if isinstance(e.op, ast.And):
      if self.pure_mode or self._pure(rest):
        r = self._eval_under(rest, t)
        return self._bool_or_value(e, first, r, t, True)
      if self.branch(t, e):
        return self.eval(rest)
      return first
    else:
      if self.pure_mode or self._pure(rest):
        r = self._eval_under(rest, z3.Not(t))
        return self._bool_or_value(e, first, r, t, False)
      if self.branch(t, e):
        return first
      return self.eval(rest)

  def _bool_or_value(self, e, first, r, t, is_and):
    """`a and b` / `a or b`: Bool when both are Bool-like, else ite on values."""
    fb = isinstance(first, V) and first.sort is S.BOOL
    rb = isinstance(r, V) and r.sort is S.BOOL
    if fb and rb:
      return V(S.BOOL, z3.And(t, r.t) if is_and else z3.Or(t, r.t))
    if isinstance(first, V) and isinstance(r, V) and first.sort is r.sort:
      return V(r.sort, z3.If(t, r.t, first.t) if is_and else z3.If(t, first.t, r.t))
    if (not is_and and isinstance(first, V) and isinstance(first.sort, S.Opt) and isinstance(r, V)
        and first.sort.inner is r.sort):
      # `maybe_none or default`: the value itself when it is truthy, else the default
      return V(r.sort, z3.If(t, first.sort.val(first.t), r.t))
    # mixed kinds: only truthiness is meaningful
    rt = self.truth(r)
    return V(S.BOOL, z3.And(t, rt) if is_and else z3.Or(t, rt))

  def _eval_under(self, e, cond):
    """Evaluate e assuming cond (for short-circuit); obligations get cond."""
    self.guards.append(cond)
    try:
      return self.eval(e)
    finally:
      self.guards.pop()

  def _pure(self, e):
    """Syntactic: no calls that may fork/raise except known pure ones."""
    for sub in ast.walk(e):
      if isinstance(sub, (ast.NamedExpr, ast.Await, ast.Yield)):
        return False
    return True

  def ev_UnaryOp(self, e):
    v = self.eval(e.operand)
    if isinstance(e.op, ast.Not):
      return V(S.BOOL, z3.Not(self.truth(v)))
    if isinstance(e.op, ast.USub):
      return V(S.INT, -self.as_int(v))
    raise Unsupported('unary op')

  def as_int(self, v):
    if isinstance(v, V) and v.sort is S.INT:
      return v.t
    if isinstance(v, V) and v.sort is S.BOOL:
      return z3.If(v.t, 1, 0)
    if isinstance(v, V) and isinstance(v.sort, S.Opt) and v.sort.inner is S.INT:
      self.oblige(z3.Not(v.sort.is_none(v.t)), 'safety', 'int is not None')
      return v.sort.val(v.t)
    raise Unsupported('not an int: %r' % (v,))

  def ev_BinOp(self, e):
    return self.binop(e.op, self.eval(e.left), self.eval(e.right), e)

  def binop(self, op, a, b, node, inplace=False):
    if isinstance(a, V) and isinstance(a.sort, S.Seq) or isinstance(b, V) and isinstance(b.sort, S.Seq):
      if isinstance(op, ast.Add):
        if isinstance(a, PyTuple):
          a = self.coerce(a, b.sort)
        if isinstance(b, PyTuple):
          b = self.coerce(b, a.sort)
        return V(a.sort, a.sort.concat(a.t, b.t))
    if isinstance(a, PyTuple) and isinstance(b, PyTuple) and isinstance(op, ast.Add):
      return PyTuple(a.items + b.items)
    if isinstance(op, ast.Add) and ((isinstance(a, V) and isinstance(a.sort, S.Tup)) or (isinstance(b, V) and isinstance(b.sort, S.Tup))):
      # fixed-arity tuples: concatenation of the components
      comps = lambda v: [V(es, v.sort.get(v.t, i)) for i, es in enumerate(v.sort.elems)] if isinstance(v, V) else list(v.items)
      if (isinstance(a, PyTuple) or isinstance(a.sort, S.Tup)) and (isinstance(b, PyTuple) or isinstance(b.sort, S.Tup)):
        return PyTuple(comps(a) + comps(b))
    if isinstance(a, V) and isinstance(a.sort, S.SetOf):
      ss = a.sort
      if isinstance(b, PyTuple) and not b.items:
        b = V(ss, ss.empty())
      b = self.coerce(b, ss)
      x = ss.elem.fresh('x')
      if isinstance(op, ast.Sub):
        return V(ss, z3.Lambda([x], z3.And(a.t[x], z3.Not(b.t[x]))))
      if isinstance(op, ast.BitOr):
        return V(ss, z3.Lambda([x], z3.Or(a.t[x], b.t[x])))
      if isinstance(op, ast.BitAnd):
        return V(ss, z3.Lambda([x], z3.And(a.t[x], b.t[x])))
    ia, ib = self.as_int(a), self.as_int(b)
    if isinstance(op, ast.Add):
      return V(S.INT, ia + ib)
    if isinstance(op, ast.Sub):
      return V(S.INT, ia - ib)
    if isinstance(op, ast.Mult):
      return V(S.INT, ia * ib)
    if isinstance(op, ast.FloorDiv):
      self.oblige(ib != 0, 'safety', 'division by zero')
      # Python floor division == SMT div for positive divisor
      self.oblige(ib > 0, 'safety', 'floor-div modelled for positive divisor only')
      return V(S.INT, ia / ib)
    if isinstance(op, ast.Mod):
      self.oblige(ib > 0, 'safety', 'mod modelled for positive divisor only')
      return V(S.INT, ia % ib)
    raise Unsupported('binary op %s' % type(op).__name__)

  def ev_Compare(self, e):
    left = self.eval(e.left)
    res = []
    for op, rhs in zip(e.ops, e.comparators):
      right = self.eval(rhs)
      res.append(self.compare(op, left, right, e))
      left = right
    return V(S.BOOL, z3.And(*res) if len(res) > 1 else res[0])

  def compare(self, op, a, b, node):
    if isinstance(op, (ast.Eq, ast.Is)):
      return self.equal(a, b, is_=isinstance(op, ast.Is))
    if isinstance(op, (ast.NotEq, ast.IsNot)):
      return z3.Not(self.equal(a, b, is_=isinstance(op, ast.IsNot)))
    if isinstance(op, ast.In):
      return self.contains(b, a)
    if isinstance(op, ast.NotIn):
      return z3.Not(self.contains(b, a))
    if isinstance(a, V) and a.sort is S.STR or isinstance(b, V) and b.sort is S.STR:
      a, b = self.coerce(a, S.STR), self.coerce(b, S.STR)
      lt = self.str_lt
      if isinstance(op, ast.Lt):
        return lt(a.t, b.t)
      if isinstance(op, ast.Gt):
        return lt(b.t, a.t)
      if isinstance(op, ast.LtE):
        return z3.Not(lt(b.t, a.t))
      if isinstance(op, ast.GtE):
        return z3.Not(lt(a.t, b.t))
    if isinstance(a, V) and isinstance(b, V) and isinstance(a.sort, S.SetOf) and a.sort is b.sort:
      x = a.sort.elem.fresh('x')
      sub = lambda p, q: z3.ForAll([x], z3.Implies(z3.Select(p, x), z3.Select(q, x)))   # p <= q
      if isinstance(op, ast.GtE):
        return sub(b.t, a.t)
      if isinstance(op, ast.LtE):
        return sub(a.t, b.t)
      if isinstance(op, ast.Gt):
        return z3.And(sub(b.t, a.t), z3.Not(sub(a.t, b.t)))
      if isinstance(op, ast.Lt):
        return z3.And(sub(a.t, b.t), z3.Not(sub(b.t, a.t)))
    ta, tb = self._tuple_items(a), self._tuple_items(b)
    if ta is not None and tb is not None:
      # lexicographic order on tuples of ints of equal length
      if len(ta) != len(tb) or not ta:
        raise Unsupported('tuple comparison of different lengths')
      lt = z3.BoolVal(False)
      for x, y in reversed(list(zip(ta, tb))):
        ix, iy = self.as_int(x), self.as_int(y)
        lt = z3.Or(ix < iy, z3.And(ix == iy, lt))
      eq = z3.And(*[self.as_int(x) == self.as_int(y) for x, y in zip(ta, tb)])
      if isinstance(op, ast.Lt):
        return lt
      if isinstance(op, ast.LtE):
        return z3.Or(lt, eq)
      if isinstance(op, ast.Gt):
        return z3.Not(z3.Or(lt, eq))
      if isinstance(op, ast.GtE):
        return z3.Not(lt)
    ia, ib = self.as_int(a), self.as_int(b)
    if isinstance(op, ast.Lt):
      return ia < ib
    if isinstance(op, ast.LtE):
      return ia <= ib
    if isinstance(op, ast.Gt):
      return ia > ib
    if isinstance(op, ast.GtE):
      return ia >= ib
    raise Unsupported('compare op')

  def _tuple_items(self, v):
    if isinstance(v, PyTuple):
      return list(v.items)
    if isinstance(v, V) and isinstance(v.sort, S.Tup):
      return [V(s, v.sort.get(v.t, i)) for i, s in enumerate(v.sort.elems)]
    return None

  def equal(self, a, b, is_=False):
    if a is NONE and b is NONE:
      return z3.BoolVal(True)
    if a is NONE or b is NONE:
      o = b if a is NONE else a
      if isinstance(o, V) and isinstance(o.sort, S.Opt):
        return o.sort.is_none(o.t)
      return z3.BoolVal(False)
    if isinstance(a, PyStr) and isinstance(b, PyStr):
      return z3.BoolVal(a.s == b.s)
    if isinstance(a, Vl.Sentinel) or isinstance(b, Vl.Sentinel):
      return z3.BoolVal(a is b)
    if isinstance(a, Obj) or isinstance(b, Obj):
      if is_ or True:
        return z3.BoolVal(a is b)
    if isinstance(a, ClassRef) and isinstance(b, ClassRef):
      return z3.BoolVal(a.name == b.name and a.module is b.module)
    if isinstance(a, V) and not isinstance(b, V):
      b = self.coerce(b, a.sort)
    elif isinstance(b, V) and not isinstance(a, V):
      a = self.coerce(a, b.sort)
    if isinstance(a, V) and isinstance(b, V):
      if a.sort is not b.sort:
        if isinstance(a.sort, S.Opt) and a.sort.inner is b.sort:
          b = self.coerce(b, a.sort)
        elif isinstance(b.sort, S.Opt) and b.sort.inner is a.sort:
          a = self.coerce(a, b.sort)
        else:
          raise Unsupported('== between %s and %s' % (a.sort, b.sort))
      if is_:
        if not self.theory_allows_is(a.sort):
          oa, ob = a.origin, b.origin
          c = self.cur_contract
          if (oa and ob and oa[0] == 'elem' and ob[0] == 'elem' and oa[1] == ob[1]
              and c is not None and oa[1] in c.no_alias):
            # elements of a list of pairwise distinct list objects: identity is index equality
            return oa[2] == ob[2]
          raise Unsupported("'is' on sort %s" % a.sort)
        return a.t == b.t
      return a.sort.eq(a.t, b.t)
    if isinstance(a, PyTuple) and isinstance(b, PyTuple):
      if len(a.items) != len(b.items):
        return z3.BoolVal(False)
      return z3.And(*[self.equal(x, y) for x, y in zip(a.items, b.items)]) if a.items else z3.BoolVal(True)
    raise Unsupported('== between %r and %r' % (a, b))

  def theory_allows_is(self, sort):
    return sort.flat

  def contains(self, cont, x):
    if isinstance(cont, PyTuple):
      if not cont.items:
        return z3.BoolVal(False)
      return z3.Or(*[self.equal(x, i) for i in cont.items])
    if isinstance(cont, V):
      s = cont.sort
      if isinstance(s, S.Seq):
        return s.contains(cont.t, self.coerce(x, s.elem).t)
      if isinstance(s, S.SetOf):
        return z3.Select(cont.t, self.coerce(x, s.elem).t)
      if isinstance(s, S.DictOf):
        return s.has(cont.t, self.coerce(x, s.key).t)
      mm = self.theory.method_models.get((s.name, '__contains__'))
      if mm:
        return self.truth(mm(self, cont, [x], {}))
      if isinstance(s, S.Rec):
        # a record bound to a class that defines __contains__: through its contract
        fr = self.rec_method(cont, '__contains__', None)
        if fr is not None:
          return self.truth(self.call_func(fr, [x], {}, None))
    if isinstance(cont, Obj):
      q = cont.module.resolve_method(cont.clsname, '__contains__')
      if q:
        return self.truth(self.call_func(FuncRef(cont.module, q, bound_self=cont), [x], {}, None))
    raise Unsupported('in on %r' % (cont,))

  def ev_IfExp(self, e):
    c = self.truth(self.eval(e.test))
    a = self._eval_under(e.body, c)
    b = self._eval_under(e.orelse, z3.Not(c))
    return self.ite(c, a, b)

  def ite(self, c, a, b):
    if isinstance(a, V) and not isinstance(b, V):
      b = self.coerce(b, a.sort) if not (b is NONE and not isinstance(a.sort, S.Opt)) else b
    if isinstance(b, V) and not isinstance(a, V):
      a = self.coerce(a, b.sort) if not (a is NONE and not isinstance(b.sort, S.Opt)) else a
    if a is NONE and isinstance(b, V):
      so = S.Opt(b.sort)
      return V(so, z3.If(c, so.none(), so.some(b.t)))
    if b is NONE and isinstance(a, V):
      so = S.Opt(a.sort)
      return V(so, z3.If(c, so.some(a.t), so.none()))
    if isinstance(a, V) and isinstance(b, V):
      if a.sort is not b.sort:
        if isinstance(a.sort, S.Opt) and a.sort.inner is b.sort:
          b = self.coerce(b, a.sort)
        elif isinstance(b.sort, S.Opt) and b.sort.inner is a.sort:
          a = self.coerce(a, b.sort)
        elif (b.sort.name, a.sort.name) in self.theory.coercions:
          b = self.coerce(b, a.sort)
        elif (a.sort.name, b.sort.name) in self.theory.coercions:
          a = self.coerce(a, b.sort)
        else:
          raise Unsupported('ite sorts %s / %s' % (a.sort, b.sort))
      # the result may alias either branch (conservative for ownership tracking)
      return V(a.sort, z3.If(c, a.t, b.t), origin=a.origin or b.origin)
    if isinstance(a, PyTuple) and isinstance(b, PyTuple) and len(a.items) == len(b.items):
      return PyTuple([self.ite(c, x, y) for x, y in zip(a.items, b.items)])
    raise Unsupported('conditional expression over %r / %r' % (a, b))

  # -- attribute / subscript ------------------------------------------------

  def ev_Attribute(self, e):
    recv = self.eval(e.value)
    return self.getattr(recv, e.attr, e)

  def getattr(self, recv, attr, node=None):
    if isinstance(recv, Obj) and attr == '__class__':
      return ClassRef(recv.module, recv.clsname)
    if isinstance(recv, ClassRef) and attr == '__name__':
      return PyStr(recv.name)
    if isinstance(recv, Obj):
      if attr in recv.fields:
        v = recv.fields[attr]
        if isinstance(v, V) and isinstance(v.sort, (S.SetOf, S.DictOf, S.Seq)):
          # remember where a mutable value lives: mutation through a local
          # alias is written through; sharing it is visible to `fresh()`
          return V(v.sort, v.t, origin=('field', recv, attr, v.origin), lit=v.lit)
        return v
      q = recv.module.resolve_method(recv.clsname, attr)
      if q:
        fn = recv.module.defs[q]
        from engine import source
        if 'property' in source.decorators(fn):
          return self.call_func(FuncRef(recv.module, q, bound_self=recv), [], {}, node)
        return FuncRef(recv.module, q, bound_self=recv)
      ca = recv.module.class_attr(recv.clsname, attr)
      if ca is not None:
        return self._eval_in_module(recv.module, ca)
      # the run-time class of the object is a subclass defined in another module (declared in the theory):
      # its methods are looked up there
      for rp2, cn2 in getattr(self.theory, 'runtime_class', {}).get((recv.module.relpath, recv.clsname), ()):
        from engine import source
        m2 = source.load(self.repo, rp2)
        q = m2.resolve_method(cn2, attr)
        if q:
          if 'property' in source.decorators(m2.defs[q]):
            return self.call_func(FuncRef(m2, q, bound_self=recv), [], {}, node)
          return FuncRef(m2, q, bound_self=recv)
      if getattr(getattr(self, 'top_contract', None), 'harness_src', None) and not self.pure_mode:
        # inside a proof harness the classes of the objects are fixed by the lemma: reading an attribute the class does not
        # have is what it is in Python -- an AttributeError (an unexpected exception fails the lemma)
        raise Raise_('AttributeError', '%s object has no attribute %s' % (recv.clsname, attr))
      raise ContractMisfit('object %s has no field %s' % (recv.clsname, attr))
    if isinstance(recv, ModuleRef):
      if recv.module is None:
        key = '%s.%s' % (recv.dotted, attr)
        if key in self.builtins:
          return self.builtins[key]
        return ModuleRef(None, key)
      v = self.module_name(recv.module, attr)
      if v is None:
        raise Unsupported('%s.%s not found' % (recv.module.relpath, attr))
      return v
    if isinstance(recv, ClassRef):
      q = recv.module.resolve_method(recv.name, attr)
      if q:
        from engine import source
        decs = source.decorators(recv.module.defs[q])
        if 'classmethod' in decs:
          return FuncRef(recv.module, q, bound_cls=recv)
        return FuncRef(recv.module, q)
      ca = recv.module.class_attr(recv.name, attr)
      if ca is not None:
        return self._eval_in_module(recv.module, ca)
      raise ContractMisfit('class %s has no attribute %s' % (recv.name, attr))
    if isinstance(recv, V) and isinstance(recv.sort, S.Opt) and self.heap_binding(recv.sort.inner) is not None:
      recv = self.coerce(recv, recv.sort.inner)     # attribute of an Optional object: obligation `is not None`
    if isinstance(recv, V) and self.heap_binding(recv.sort) is not None:
      (rp, cn), hb = self.heap_binding(recv.sort)
      if attr in hb[2]:
        return self.heap_read(recv, attr)
      if (recv.sort.name, attr) in self.theory.method_models:
        return BoundMethod(recv, attr, getattr(node, 'value', None))
      from engine import source as _src
      hmod = _src.load(self.repo, rp)
      q = hmod.resolve_method(cn, attr)
      if q:
        if 'property' in _src.decorators(hmod.defs[q]):
          return self.call_func(FuncRef(hmod, q, bound_self=recv), [], {}, node)
        return FuncRef(hmod, q, bound_self=recv)
      if (recv.sort.name, attr) in self.theory.method_models:
        return BoundMethod(recv, attr, getattr(node, 'value', None))
      raise ContractMisfit('heap class %s has no field/method %s' % (cn, attr))
    if isinstance(recv, V):
      s = recv.sort
      am = self.theory.attr_models.get((s.name, attr))
      if am:
        return am(self, recv)
      if isinstance(s, S.Rec) and attr in dict(s.fields):
        fs = s.field_sort(attr)
        org = ('immutable', s.name, attr) if isinstance(fs, (S.SetOf, S.DictOf)) else None
        return V(fs, s.field(attr, recv.t), origin=org)
      if isinstance(s, S.Adt):
        cs = s.classes_with_field(attr)
        if cs:
          # safety: the value is of a class that has this field
          self.oblige(z3.Or(*[s.is_(c, recv.t) for c in cs]), 'safety',
                      'attribute %s exists' % attr)
          # accessors of different ctors: pick by tester
          c0 = cs[0]
          t = s.field(c0, attr, recv.t)
          fs = s.field_sorts[(c0, attr)]
          for c in cs[1:]:
            t = z3.If(s.is_(c, recv.t), s.field(c, attr, recv.t), t)
          org = ('immutable', s.name, attr) if (
              isinstance(fs, (S.SetOf, S.DictOf)) or fs.name in self.theory.as_set) else None
          return V(fs, t, origin=org)
        # methods / properties defined on the python class(es)
        pm = self.adt_method(recv, attr, node)
        if pm is not None:
          return pm
      if isinstance(s, S.Rec):
        pm = self.rec_method(recv, attr, node)
        if pm is not None:
          return pm
      return BoundMethod(recv, attr, lval=getattr(node, 'value', None))
    if isinstance(recv, (PyTuple, PyStr)):
      return BoundMethod(recv, attr, lval=getattr(node, 'value', None))
    raise Unsupported('attribute %s of %r' % (attr, recv))

  def _eval_in_module(self, mod, expr):
    saved = (self.cur_module, self.env)
    self.cur_module, self.env = mod, {}
    try:
      return self.eval(expr)
    finally:
      self.cur_module, self.env = saved

  def class_of_sort(self, sort):
    """(module, clsname) python class bound to a Rec sort."""
    from engine import source
    for (rp, cn), b in self.theory.classes.items():
      if b[0] == 'rec' and b[1] is sort:
        return source.load(self.repo, rp), cn
    return None

  def rec_method(self, recv, attr, node):
    mc = self.class_of_sort(recv.sort)
    if mc is None:
      return None
    mod, cn = mc
    q = mod.resolve_method(cn, attr)
    if q is None:
      return None
    from engine import source
    if 'property' in source.decorators(mod.defs[q]):
      return self.call_func(FuncRef(mod, q, bound_self=recv), [], {}, node)
    return FuncRef(mod, q, bound_self=recv)

  def adt_method(self, recv, attr, node):
    from engine import source
    virt = self.theory.virtual.get((recv.sort.name, attr))
    if virt is not None:
      return FuncRef(source.load(self.repo, virt[0]), virt[1], bound_self=recv)
    for (rp, cn), b in self.theory.classes.items():
      if b[0] == 'adt' and b[1] is recv.sort:
        mod = source.load(self.repo, rp)
        q = mod.resolve_method(cn, attr)
        if q:
          return FuncRef(mod, q.split('.')[0] + '.' + attr if False else q, bound_self=recv)
    return None

  def ev_Subscript(self, e):
    cont = self.eval(e.value)
    if isinstance(e.slice, ast.Slice):
      lo = self.as_int(self.eval(e.slice.lower)) if e.slice.lower else None
      hi = self.as_int(self.eval(e.slice.upper)) if e.slice.upper else None
      if e.slice.step is not None:
        raise Unsupported('slice step')
      if isinstance(cont, PyTuple):
        raise Unsupported('slice of python tuple')
      if isinstance(cont.sort, S.Seq):
        if not self.pure_mode and not self.binders and getattr(self.theory, 'exact_slices', False):
          # when the path condition already implies 0 <= lo <= hi <= len, Python's clamping is the identity:
          # use the bounds as they are (the clamping ite-terms make later quantified reasoning much harder)
          n = cont.sort.len(cont.t)
          lo_ = lo if lo is not None else z3.IntVal(0)
          hi_ = hi if hi is not None else n
          from engine.core import quick_check
          if quick_check(self.base_facts() + self.pc, z3.Not(z3.And(0 <= lo_, lo_ <= hi_, hi_ <= n))) == z3.unsat:
            return V(cont.sort, cont.sort.slice_exact(cont.t, lo_, hi_))
        return V(cont.sort, cont.sort.slice(cont.t, lo, hi))
      raise Unsupported('slice of %s' % cont.sort)
    idx = self.eval(e.slice)
    return self.getitem(cont, idx, e)

  def getitem(self, cont, idx, node):
    if isinstance(cont, PyTuple):
      if isinstance(idx, V) and z3.is_int_value(z3.simplify(idx.t)):
        return cont.items[z3.simplify(idx.t).as_long()]
      raise Unsupported('symbolic index into python tuple')
    if isinstance(cont, V):
      s = cont.sort
      if isinstance(s, S.Seq):
        i = self.as_int(idx)
        n = s.len(cont.t)
        self.oblige_or_raise(z3.And(-n <= i, i < n), 'IndexError', 'index in range', node)
        # specs index from the front only (negative indices are a code-level feature)
        i2 = i if self.pure_mode else z3.simplify(z3.If(i < 0, i + n, i))
        return V(s.elem, s.at(cont.t, i2), origin=('item', node, V(S.INT, i2)))
      if isinstance(s, S.DictOf):
        k = self.coerce(idx, s.key)
        self.oblige_or_raise(s.has(cont.t, k.t), 'KeyError', 'key present', node)
        return V(s.val, s.get(cont.t, k.t), origin=('item', node, k))
      if isinstance(s, S.Tup):
        i = z3.simplify(self.as_int(idx))
        if not z3.is_int_value(i):
          raise Unsupported('symbolic index into fixed tuple')
        return V(s.elems[i.as_long()], s.get(cont.t, i.as_long()))
      mm = self.theory.method_models.get((s.name, '__getitem__'))
      if mm:
        return mm(self, cont, [idx], {})
    raise Unsupported('subscript of %r' % (cont,))

  def oblige_or_raise(self, cond, excname, what, node):
    """Implicit exception: safety obligation unless the contract names it."""
    c = self.cur_contract
    if c is not None and (excname in c.raises or excname in c.may_raise) and not self.pure_mode:
      if not self.branch(cond, node, tag=excname):
        raise Raise_(excname, what)
      return
    self.oblige(cond, 'safety', '%s (%s) at line %s' % (
        what, excname, getattr(node, 'lineno', '?')))

  # -- assignment -----------------------------------------------------------

  def assign(self, target, val):
    if isinstance(target, ast.Name):
      self.env[target.id] = val
      return
    if isinstance(target, (ast.Tuple, ast.List)):
      items = self.unpack(val, len(target.elts))
      for t, v in zip(target.elts, items):
        self.assign(t, v)
      return
    if isinstance(target, ast.Attribute):
      recv = self.eval(target.value)
      if isinstance(recv, V) and isinstance(recv.sort, S.Opt) and self.heap_binding(recv.sort.inner) is not None:
        recv = self.coerce(recv, recv.sort.inner)     # attribute store on an Optional object: obligation `is not None`
      if isinstance(recv, V) and self.heap_binding(recv.sort) is not None:
        self.heap_write(recv, target.attr, val)
        return
      if isinstance(recv, Obj):
        decl = self.obj_field_sort(recv, target.attr)
        if decl is not None and not isinstance(val, Obj):
          val = self.coerce(val, decl)
        recv.fields[target.attr] = val
        return
      raise Unsupported('attribute assignment on %r' % (recv,))
    if isinstance(target, ast.Subscript):
      cont = self.eval(target.value)
      idx = self.eval(target.slice)
      self.store_back(target.value, self.set_item(cont, idx, val, target))
      return
    raise Unsupported('assignment target %s' % type(target).__name__)

  def obj_field_sort(self, obj, attr):
    b = self.theory.classes.get((obj.module.relpath, obj.clsname))
    if b and b[0] == 'obj':
      return b[1].get(attr)
    return None

  def unpack(self, val, n):
    if isinstance(val, PyTuple):
      if len(val.items) != n:
        raise Unsupported('unpack arity')
      return val.items
    if isinstance(val, V) and isinstance(val.sort, S.Tup):
      return [V(s, val.sort.get(val.t, i)) for i, s in enumerate(val.sort.elems)]
    if isinstance(val, V) and isinstance(val.sort, S.Seq):
      self.oblige(val.sort.len(val.t) == n, 'safety', 'unpack length')
      return [V(val.sort.elem, val.sort.at(val.t, i)) for i in range(n)]
    raise Unsupported('unpack of %r' % (val,))

  def set_item(self, cont, idx, val, node):
    s = cont.sort
    if isinstance(s, S.DictOf):
      k = self.coerce(idx, s.key)
      v = self.coerce(val, s.val)
      return V(s, s.put(cont.t, k.t, v.t))
    if isinstance(s, S.Seq):
      i = self.as_int(idx)
      n = s.len(cont.t)
      self.oblige(z3.And(0 <= i, i < n), 'safety', 'index in range (store)')
      v = self.coerce(val, s.elem)
      return V(s, s.mk(z3.Store(s.arr(cont.t), i, v.t), n))
    raise Unsupported('item assignment on %s' % s)

  def del_item(self, cont, idx, node):
    s = cont.sort
    if isinstance(s, S.Seq):
      i = z3.simplify(self.as_int(idx))
      n = s.len(cont.t)
      self.oblige(z3.And(0 <= i, i < n), 'safety', 'index in range (del)')
      p = z3.FreshConst(z3.IntSort(), 'p')
      arr = z3.Lambda([p], z3.If(p < i, s.at(cont.t, p), s.at(cont.t, p + 1)))
      return V(s, s.mk(arr, n - 1))
    if isinstance(s, S.DictOf):
      k = self.coerce(idx, s.key)
      self.oblige(s.has(cont.t, k.t), 'safety', 'key present (del)')
      return V(s, s.mk(z3.Store(s.dom(cont.t), k.t, z3.BoolVal(False)), s.vals(cont.t)))
    raise Unsupported('del item on %s' % s)

  def store_back(self, lval, newval):
    """Write an updated container value back to where it came from."""
    if lval is None:
      raise Unsupported('in-place mutation of a temporary')
    if isinstance(lval, ast.Name):
      old = self.env.get(lval.id)
      org = old.origin if isinstance(old, V) else None
      if org is not None and org[0] == 'immutable':
        self.oblige(z3.BoolVal(False), 'frame',
                    'in-place mutation of %s, which aliases the %s of an immutable %s' % (
                        lval.id, org[2], org[1]))
      if org is not None and org[0] == 'field':
        # write through to the object field this local aliases
        newval = V(newval.sort, newval.t, origin=org)
        org[1].fields[org[2]] = V(newval.sort, newval.t, origin=org[3])
      elif org is not None and org[0] == 'elem' and isinstance(newval, V):
        # the local aliases element org[2] of the list held by org[1]: write through
        holder = self.env[org[1]]
        hs = holder.sort
        self.env[org[1]] = V(hs, hs.mk(z3.Store(hs.arr(holder.t), org[2], newval.t), hs.len(holder.t)),
                             origin=holder.origin)
        newval = V(newval.sort, newval.t, origin=org)
      elif org is not None and org[0] == 'heapfield' and isinstance(newval, V):
        # the local aliases a mutable field of a heap object: write through
        self.heap_write(org[3], org[2], newval)
        newval = V(newval.sort, newval.t, origin=org)
      elif org is not None and org[0] == 'item' and isinstance(newval, V):
        # `x = holder[k]` followed by an in-place mutation of x: the mutable value is shared with
        # the holder, so the update is written through to holder[k] (k as evaluated at the read)
        node = org[1]
        if len(org) > 2 and isinstance(getattr(node, 'value', None), (ast.Name, ast.Attribute, ast.Subscript)) and not self.pure_mode:
          holder = self.eval(node.value)
          if isinstance(holder, V) and isinstance(holder.sort, (S.DictOf, S.Seq)):
            self.store_back(node.value, self.set_item(holder, org[2], newval, node))
        newval = V(newval.sort, newval.t, origin=org)
      self.env[lval.id] = newval
      # write-through for aliases created by `x = holder[k]` / `for x in seqs`
      al = self.aliases.get(lval.id)
      if al is not None:
        al(newval)
      return
    if isinstance(lval, ast.Attribute):
      recv = self.eval(lval.value)
      if isinstance(recv, V) and isinstance(recv.sort, S.Opt) and self.heap_binding(recv.sort.inner) is not None:
        recv = self.coerce(recv, recv.sort.inner)
      if isinstance(recv, V) and self.heap_binding(recv.sort) is not None:
        self.heap_write(recv, lval.attr, newval)
        return
      if isinstance(recv, Obj):
        oldf = recv.fields.get(lval.attr)
        inner = oldf.origin if isinstance(oldf, V) else None
        if inner is not None and inner[0] == 'field' and inner[1] is not recv:
          # the field shares its container with another object's field
          inner[1].fields[inner[2]] = V(newval.sort, newval.t, origin=inner[3])
        recv.fields[lval.attr] = V(newval.sort, newval.t, origin=inner) if isinstance(newval, V) else newval
        return
      if isinstance(recv, V):
        self.oblige(z3.BoolVal(False), 'frame', 'in-place mutation of a field of an immutable value')
        return
    if isinstance(lval, ast.Subscript):
      cont = self.eval(lval.value)
      idx = self.eval(lval.slice)
      self.store_back(lval.value, self.set_item(cont, idx, newval, lval))
      return
    raise Unsupported('store back to %s' % ast.dump(lval))
