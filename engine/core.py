"""Core of the VC generator: paths, obligations, contracts, theories."""
import z3

from engine import sorts as S
from engine.source import ContractMisfit, Unsupported  # pylint: disable=unused-import


class PathEnd(Exception):
  """The current symbolic path ends here (normally)."""


class Return_(Exception):
  def __init__(self, value):
    super().__init__()
    self.value = value


class Break_(Exception):
  pass


class Continue_(Exception):
  pass


class Raise_(Exception):
  """A Python exception raised by the analysed code on this path."""

  def __init__(self, excname, detail=''):
    super().__init__(excname)
    self.excname = excname
    self.detail = detail


class Loop:
  """Loop contract, keyed by the loop's ordinal within the function (source order)."""

  def __init__(self, inv, index=None, seq=None, decreases=None, note='',
               ghost_init=(), ghost_end=(), lemmas=(), havoc=()):
    self.inv = [inv] if isinstance(inv, str) else list(inv)
    self.index = index    # name of the ghost iteration index
    self.seq = seq        # name of the ghost sequence being iterated
    self.note = note
    self.ghost_init = list(ghost_init)  # ghost assignments 'name = expr' run before the loop
    self.ghost_end = list(ghost_end)    # ghost assignments run at the end of every iteration
    self.lemmas = list(lemmas)          # asserted (then assumed) at the end of an iteration
    self.havoc = list(havoc)            # further names havocked at the loop head (values the model does not track)


class Contract:
  """Pre/postconditions of one function (optionally one instance of it)."""

  def __init__(self, file, qualname, params, requires=(), ensures=(),
               raises=None, loops=None, result=None, instance=None,
               ghost=None, verify=True, pure=True, note='', may_raise=(),
               raises_ensures=None, no_alias=(), ghost_out=None, asserts=None, mutates=(), heap_mutates=()):
    self.file = file
    self.qualname = qualname
    self.params = params            # ordered dict: name -> Sort | ('obj', cls) | ('cls', name) | ('seq*', Sort)
    self.requires = list(requires)
    self.ensures = list(ensures)
    self.raises = dict(raises or {})  # ExcName -> condition (iff)
    self.loops = dict(loops or {})
    self.result = result
    self.instance = instance or {}
    self.ghost = ghost or {}
    self.verify = verify            # False: assumed contract (listed as trusted)
    self.note = note
    self.may_raise = may_raise
    self.raises_ensures = dict(raises_ensures or {})  # ExcName -> [spec at the raise point]
    self.asserts = dict(asserts or {})   # anchor (source prefix of a statement) -> [specs] asserted right after it
    self.ghost_out = dict(ghost_out or {})  # ghost results visible to callers (fresh at each call)
    self.heap_mutates = tuple(heap_mutates)   # (param, field) of heap objects the function writes
    self.mutates = tuple(mutates)     # value-sorted parameters the function mutates in place (caller sees a havocked, ensures-constrained value)
    self.no_alias = tuple(no_alias)   # list-of-lists params whose element lists are pairwise distinct objects

  @property
  def key(self):
    inst = tuple(sorted(self.instance.items()))
    return (self.file, self.qualname, inst)

  @property
  def label(self):
    inst = ''
    if self.instance:
      inst = '[' + ','.join('%s=%s' % kv for kv in sorted(self.instance.items())) + ']'
    return '%s::%s%s' % (self.file, self.qualname, inst)


class Obligation:
  def __init__(self, name, kind, assumptions, goal, line=None, detail=''):
    self.name = name
    self.kind = kind
    self.assumptions = list(assumptions)
    self.goal = goal
    self.line = line
    self.detail = detail
    self.status = None     # 'proved' | 'sat' | 'unknown'
    self.backend = None
    self.seconds = 0.0
    self.model = None
    self.expect_fail = False  # canary

  def formula(self):
    return self.assumptions + [z3.Not(self.goal)]


class Theory:
  """Per-property registry: class bindings, contracts, spec symbols, axioms."""

  def __init__(self, pid):
    self.pid = pid
    self.classes = {}     # (relpath, clsname) -> ('adt', Adt, ctor) | ('rec', Rec) | ('obj', {field: Sort})
    self.contracts = {}   # key -> Contract
    self.inline = set()   # (relpath, qualname)
    self.symbols = {}     # name -> value (V / Builtin) usable in specs
    self.axioms = []      # global z3 facts (definitions of spec functions)
    self.lemmas = []      # (name, formula): proved from the axioms on every run, then used like axioms
    self.exc_parents = {}  # ExcName -> parent ExcName
    self.assumptions = []  # human-readable assumption list for the evidence
    self.opaque = {}      # (relpath, qualname) -> Builtin model
    self.attr_models = {}  # (sortname, attr) -> fn(ex, recv) -> value
    self.method_models = {}  # (sortname, meth) -> fn(ex, recv, args, kwargs)
    self.sorts = {'Str': S.STR, 'Int': S.INT}  # name -> Sort (for `every('X')`)
    self.coercions = {}   # (from sort name, to sort name) -> fn(ex, v)
    self.as_set = {}      # sort name -> fn(ex, v) -> V(SetOf) (iteration over custom set sorts)
    self.virtual = {}     # (adt name, method) -> (relpath, qualname) used for dynamic dispatch

  def bind_adt(self, relpath, clsname, adt, ctor=None):
    self.classes[(relpath, clsname)] = ('adt', adt, ctor)

  def bind_rec(self, relpath, clsname, rec):
    self.classes[(relpath, clsname)] = ('rec', rec)

  def bind_obj(self, relpath, clsname, fields):
    self.classes[(relpath, clsname)] = ('obj', fields)

  def bind_heap(self, relpath, clsname, ref, fields):
    """Objects of this class live in a heap (Burstall): values are references of sort `ref`,
    every field f is a map ref -> value kept in the executor's state under the name `$H.<cls>.<f>`.
    Aliasing between references is handled by the maps (two names may denote the same object)."""
    self.classes[(relpath, clsname)] = ('heap', ref, fields)
    self.__dict__.setdefault('heap_sorts', {})[ref.name] = (relpath, clsname)

  def add(self, contract):
    self.contracts[contract.key] = contract
    return contract

  def find_contract(self, relpath, qualname, inst):
    """Most specific contract whose instance dict is satisfied by `inst`."""
    best = None
    for (f, q, i), c in self.contracts.items():
      if f == relpath and q == qualname and all(
          inst.get(k) == v for k, v in i):
        if best is None or len(i) > len(best.instance):
          best = c
    return best

  def exc_is(self, exc, handler):
    while exc is not None:
      if exc == handler:
        return True
      exc = self.exc_parents.get(exc)
    return handler in ('Exception', 'BaseException')


class Decisions:
  """DFS over path decisions by re-execution."""

  def __init__(self):
    self.vec = []
    self.arity = []
    self.pos = 0

  def restart(self):
    self.pos = 0

  def choose(self, n):
    if self.pos < len(self.vec):
      d = self.vec[self.pos]
    else:
      d = 0
      self.vec.append(0)
      self.arity.append(n)
    self.pos += 1
    return d

  def prefix(self):
    return tuple(self.vec[:self.pos])

  def advance(self):
    """Move to the next unexplored vector; False when exhausted."""
    self.vec = self.vec[:self.pos]
    self.arity = self.arity[:self.pos]
    while self.vec:
      if self.vec[-1] + 1 < self.arity[-1]:
        self.vec[-1] += 1
        return True
      self.vec.pop()
      self.arity.pop()
    return False


def quick_check(assumptions, extra):
  # deterministic budget (z3 resource units), in a forked child with a wall-clock backstop: the set of
  # explored paths -- and with it the set of generated obligations -- must not depend on machine load
  from engine import smt
  return smt.quick_sat(assumptions, extra)
