"""The symbolic executor: ties the mixins together and drives verification."""
import ast
import copy

import z3

from engine import sorts as S
from engine import source
from engine import values as Vl
from engine.core import (Break_, Continue_, ContractMisfit, Decisions, Obligation,
                         PathEnd, Raise_, Return_, Unsupported, quick_check)
from engine.execcall import CallMixin
from engine.execcomp import CompMixin, Gen
from engine.execexpr import ExprMixin
from engine.execstmt import StmtMixin
from engine.values import V, NONE, PyStr, PyTuple, Obj, ClassRef, FuncRef

MAX_PATHS = 4000


def split_goal(g, budget=8):
  """Splits a goal into independently provable parts (conjuncts, both directions of an
  iff under universal quantifiers).  Smaller VCs are far more stable for E-matching."""
  out = []

  def rec(f, ctx):
    # ctx: list of wrappers (callables) to re-apply around the part
    if len(out) >= 64:
      out.append(wrap(f, ctx))
      return
    if z3.is_and(f) and f.num_args() > 0:
      for a in f.children():
        rec(a, ctx)
      return
    if z3.is_implies(f):
      p, q = f.arg(0), f.arg(1)
      if z3.is_quantifier(p) and p.is_exists():
        # (exists k. P) => Q   ==   forall k. (P => Q)     (k not free in Q)
        n = p.num_vars()
        vs = [z3.FreshConst(p.var_sort(n - 1 - i), 'e') for i in range(n)]
        body = z3.substitute_vars(p.body(), *vs)
        bound = list(reversed(vs))
        rec(z3.Implies(body, q), ctx + [lambda x, bound=bound: z3.ForAll(bound, x)])
        return
      if z3.is_and(p) and any(z3.is_quantifier(a) and a.is_exists() for a in p.children()):
        ex_ = [a for a in p.children() if z3.is_quantifier(a) and a.is_exists()][0]
        rest = [a for a in p.children() if not a.eq(ex_)]
        rec(z3.Implies(ex_, z3.Implies(z3.And(*rest) if rest else z3.BoolVal(True), q)), ctx)
        return
      if z3.is_or(p) and p.num_args() <= 4:
        # (A or B) => Q   ==   (A => Q) and (B => Q)
        for a in p.children():
          rec(z3.Implies(a, q), ctx)
        return
      if z3.is_and(q) or is_bool_eq(q) or z3.is_implies(q) or is_forall(q):
        rec(q, ctx + [lambda x, p=p: z3.Implies(p, x)])
        return
    if is_bool_eq(f):
      a, b = f.arg(0), f.arg(1)
      rec(z3.Implies(a, b), ctx)
      rec(z3.Implies(b, a), ctx)
      return
    if is_forall(f):
      n = f.num_vars()
      vs = [z3.FreshConst(f.var_sort(n - 1 - i), 'q') for i in range(n)]
      # de Bruijn: Var(0) is the innermost = last bound variable
      body = z3.substitute_vars(f.body(), *vs)
      bound = list(reversed(vs))
      rec(body, ctx + [lambda x, bound=bound: z3.ForAll(bound, x)])
      return
    out.append(wrap(f, ctx))

  def wrap(f, ctx):
    for w in reversed(ctx):
      f = w(f)
    return f

  def is_bool_eq(f):
    return z3.is_eq(f) and z3.is_bool(f.arg(0))

  def is_forall(f):
    return z3.is_quantifier(f) and f.is_forall()

  rec(g, [])
  return out if 0 < len(out) <= 64 else [g]


class Ex(StmtMixin, ExprMixin, CallMixin, CompMixin):

  def __init__(self, theory, repo):
    self.theory = theory
    self.repo = repo
    self.builtins = self.make_builtins()
    from engine.values import Builtin
    for k, f in getattr(theory, 'builtin_models', {}).items():
      self.builtins[k] = Builtin(k, f, needs_ex=True) if callable(f) else f   # library models specific to this theory (A-LIB)
    self.modcache = {}
    self.obligations = []
    self._seen_obl = set()
    self._name_count = {}
    self.used_contracts = set()
    self.used_anchors = set()
    self.missing_anchors = []
    self.str_lt = z3.Function('str_lt', S.STR.z3(), S.STR.z3(), z3.BoolSort())
    self.reset_path()
    self.top_contract = None
    self.cur_contract = None
    self.cur_module = None
    self.feas_cache = {}
    self.paths = 0
    self.exits = 0

  def reset_path(self):
    self.env = {}
    self.spec_env = {}
    self.entry_env = {}
    self.pc = []
    self.guards = []
    self.binders = []
    self.aliases = {}
    self.pure_mode = False
    self.current_exc = None
    self.depth = 0
    self.cur_line = None
    self.obl_count = {}
    self.loop_entry = {}
    self.loop_head = {}
    self.path_ghosts = {}     # ghost results of callees on this path (also visible when the call sits inside a comprehension)

  # -- path condition ---------------------------------------------------------

  def _wrap(self, f):
    if self.guards:
      f = z3.Implies(z3.And(*self.guards), f)
    for vars_, cond in reversed(self.binders):
      f = z3.Implies(cond, f)
      if vars_:
        f = z3.ForAll(vars_, f)
    return f

  def drain_facts(self):
    while S._PENDING_FACTS:
      f = S._PENDING_FACTS.pop(0)
      self.pc.append(self._wrap(f))

  def assume(self, f):
    self.drain_facts()
    f = self._wrap(f)
    if z3.is_quantifier(f) or z3.is_and(f) or z3.is_implies(f):
      # same normalisation as for goals: conjuncts, both directions of iff,
      # existentials pulled out of antecedents (gives E-matching usable triggers)
      parts = split_goal(f)
      self.pc.append(f)
      if len(parts) > 1 or not parts[0].eq(f):
        self.pc.extend(parts)   # redundant but differently triggered copies
    else:
      self.pc.append(f)

  def base_facts(self):
    facts = list(self.theory.axioms)
    for s in S.Uninterp._cache.values():
      facts.extend(s.facts())
    return facts

  def oblige(self, goal, kind, detail, aux=False):
    if self.pure_mode:
      return
    self.drain_facts()
    goal = self._wrap(goal)
    n = self.obl_count.get(kind, 0)
    self.obl_count[kind] = n + 1
    key = (self.top_contract.label, kind, self.dec.prefix(), n)
    if key not in self._seen_obl:
      self._seen_obl.add(key)
      c = self.top_contract
      nk = (c.label, kind)
      self._name_count[nk] = self._name_count.get(nk, 0) + 1
      name = '%s/%s/%s#%d' % (self.theory.pid, c.label, kind, self._name_count[nk])
      parts = split_goal(goal)
      facts = self.base_facts() + list(self.pc)
      for pi, part in enumerate(parts):
        pname = name if len(parts) == 1 else '%s.%d' % (name, pi + 1)
        o = Obligation(pname, kind, facts, part, line=self.cur_line, detail=detail)
        o.owner = c.label
        o.canary = (kind == 'canary')
        # helper clause that pins down more than the property states: failing alone = undecided
        o.undecided_if_no_witness = aux
        self.obligations.append(o)
    # after checking, the goal may be assumed on this path
    self.pc.append(goal)

  def feasible(self, cond):
    self.drain_facts()
    r = quick_check(self.base_facts() + self.pc, self._wrap_exist(cond))
    return r != z3.unsat

  def _wrap_exist(self, f):
    if self.guards:
      f = z3.And(z3.And(*self.guards), f)
    return f

  def branch(self, cond, node, tag=''):
    """True if the path takes the `cond` side; forks when both are feasible."""
    if self.pure_mode or self.binders:
      raise Unsupported('branching inside a pure/quantified context (line %s)' % getattr(node, 'lineno', '?'))
    c = z3.simplify(cond)
    if z3.is_true(c):
      return True
    if z3.is_false(c):
      return False
    k = self.dec_feasible([cond, z3.Not(cond)], node, tag='br' + tag)
    return k == 0

  # -- specs --------------------------------------------------------------------

  _spec_cache = {}

  def spec(self, text):
    if text not in self._spec_cache:
      self._spec_cache[text] = ast.parse(text.strip(), mode='eval').body
    node = self._spec_cache[text]
    saved = self.pure_mode
    self.pure_mode = True
    try:
      return self.truth(self.eval(node))
    finally:
      self.pure_mode = saved

  def ev_Call(self, e):
    if isinstance(e.func, ast.Name) and e.func.id == 'old' and self.pure_mode:
      saved = self.env
      # inside a modular call, old(...) of the callee's contract is the state at the call
      self.env = dict(self.call_old_env if getattr(self, 'call_old_env', None) is not None else self.entry_env)
      for k, v in saved.items():
        if k not in self.env:
          self.env[k] = v
      try:
        return self.eval(e.args[0])
      finally:
        self.env = saved
    if isinstance(e.func, ast.Name) and e.func.id in ('entry', 'head') and self.pure_mode:
      # entry(n, expr): value of expr when loop n was reached; head(n, expr): at the start of its current iteration
      n = e.args[0].value
      snap = (self.loop_entry if e.func.id == 'entry' else self.loop_head).get(n)
      if snap is None:
        raise Unsupported('%s(%d, ...) used outside loop %d' % (e.func.id, n, n))
      saved = self.env
      self.env = dict(saved)
      self.env.update(snap)
      try:
        return self.eval(e.args[1])
      finally:
        self.env = saved
    return CallMixin.ev_Call(self, e)

  # -- values ---------------------------------------------------------------------

  def assume_wf(self, v, depth=0):
    if isinstance(v, V):
      f = self.wf_formula(v.sort, v.t, depth)
      if f is not None:
        self.assume(f)

  def wf_formula(self, s, t, depth=0):
    if depth > 3:
      return None
    if isinstance(s, S.Seq):
      fs = [s.len(t) >= 0]
      k = z3.FreshConst(z3.IntSort(), 'k')
      inner = self.wf_formula(s.elem, s.at(t, k), depth + 1)
      if inner is not None:
        fs.append(z3.ForAll([k], z3.Implies(z3.And(0 <= k, k < s.len(t)), inner)))
      return z3.And(*fs)
    if isinstance(s, S.Rec):
      fs = [self.wf_formula(fs_, s.field(f, t), depth + 1) for f, fs_ in s.fields]
      fs = [f for f in fs if f is not None]
      return z3.And(*fs) if fs else None
    if isinstance(s, S.DictOf):
      x = s.key.fresh('x')
      inner = self.wf_formula(s.val, s.get(t, x), depth + 1)
      if inner is not None:
        return z3.ForAll([x], z3.Implies(s.has(t, x), inner))
      return None
    if isinstance(s, S.Opt):
      inner = self.wf_formula(s.inner, s.val(t), depth + 1)
      if inner is not None:
        return z3.Implies(z3.Not(s.is_none(t)), inner)
    if isinstance(s, S.Tup):
      fs = [self.wf_formula(e, s.get(t, i), depth + 1) for i, e in enumerate(s.elems)]
      fs = [f for f in fs if f is not None]
      return z3.And(*fs) if fs else None
    return None

  def havoc_value(self, v, name):
    if isinstance(v, V):
      nv = V(v.sort, v.sort.fresh(name))
      self.assume_wf(nv)
      return nv
    if isinstance(v, Obj):
      for f, fv in list(v.fields.items()):
        v.fields[f] = self.havoc_value(fv, '%s.%s' % (name, f))
      return v
    if isinstance(v, PyTuple):
      if not v.items:
        ls = self.local_sort(name)
        if ls is not None:
          nv = V(ls, ls.fresh(name))
          self.assume_wf(nv)
          return nv
        raise Unsupported('havoc of untyped empty literal %s: declare it in contract.locals' % name)
      return PyTuple([self.havoc_value(i, name) for i in v.items])
    if v is NONE:
      ls = self.local_sort(name)
      if ls is not None:
        nv = V(ls, ls.fresh(name))
        self.assume_wf(nv)
        return nv
      raise Unsupported('havoc of None-valued %s: declare it in contract.locals' % name)
    return v

  def local_sort(self, name):
    c = self.cur_contract
    if c is not None:
      return c.ghost.get(name)
    return None

  def assign(self, target, val):
    if isinstance(target, ast.Name) and self.depth == 0:
      ls = self.local_sort(target.id)
      if ls is not None and not isinstance(val, Gen):
        val = self.coerce(val, ls)
    ExprMixin.assign(self, target, val)

  def isinstance_one(self, v, cref):
    if isinstance(v, V) and isinstance(v.sort, S.Adt):
      adt = v.sort
      subs = cref.module.subclasses(cref.name)
      tests = []
      for sub in subs:
        b = self.theory.classes.get((cref.module.relpath, sub))
        if b and b[0] == 'adt' and b[1] is adt:
          ctor = b[2] or sub
          if ctor in adt.ctors:
            tests.append(adt.is_(ctor, v.t))
      b = self.theory.classes.get((cref.module.relpath, cref.name))
      if b is None and not tests:
        im = self.theory.attr_models.get((adt.name, 'isinstance:' + cref.name))
        if im:
          return im(self, v)
        raise Unsupported('isinstance(%s, %s): class not bound' % (adt, cref.name))
      return z3.Or(*tests) if tests else z3.BoolVal(False)
    if isinstance(v, V):
      im = self.theory.attr_models.get((v.sort.name, 'isinstance:' + cref.name))
      if im:
        return im(self, v)
      b = self.theory.classes.get((cref.module.relpath, cref.name))
      if b and b[0] == 'rec':
        return z3.BoolVal(b[1] is v.sort)
    if isinstance(v, Obj):
      return z3.BoolVal(v.clsname in cref.module.subclasses(cref.name))
    raise Unsupported('isinstance(%r, %s)' % (v, cref.name))

  # -- driver -----------------------------------------------------------------------

  def make_param(self, name, ps, mod):
    if isinstance(ps, S.Sort):
      v = V(ps, ps.fresh(name))
      self.assume_wf(v)
      return v
    if isinstance(ps, tuple) and ps[0] == 'cls':
      return ClassRef(mod, ps[1])
    if isinstance(ps, tuple) and ps[0] == 'obj':
      if len(ps) == 3:
        mod = source.load(self.repo, ps[1])
        ps = ('obj', ps[2])
      b = self.theory.classes.get((mod.relpath, ps[1]))
      if not b or b[0] != 'obj':
        raise Unsupported('obj class %s not bound' % ps[1])
      o = Obj(ps[1], mod, {})
      for f, fs in b[1].items():
        if isinstance(fs, tuple) and fs[0] == 'obj':
          # nested object: ('obj', relpath, clsname)
          o.fields[f] = self.make_param('%s.%s' % (name, f), ('obj', fs[2]), source.load(self.repo, fs[1]))
          continue
        o.fields[f] = V(fs, fs.fresh('%s.%s' % (name, f)))
        self.assume_wf(o.fields[f])
      return o
    if isinstance(ps, tuple) and ps[0] == 'const':
      return ps[1]
    raise Unsupported('param spec %r' % (ps,))

  # -- heap-allocated objects (Theory.bind_heap) ---------------------------------------

  def heap_binding(self, sort):
    hs = getattr(self.theory, 'heap_sorts', {})
    key = hs.get(getattr(sort, 'name', None))
    if key is None:
      return None
    return key, self.theory.classes[key]

  def heap_name(self, clsname, field):
    return '$H.%s.%s' % (clsname, field)

  def init_heap(self):
    for (rp, cn), b in self.theory.classes.items():
      if b[0] != 'heap':
        continue
      ref, fields = b[1], b[2]
      for f, fs in fields.items():
        hsort = S.DictOf(ref, fs)
        hv = V(hsort, hsort.fresh('H_%s_%s' % (cn, f)))
        self.env[self.heap_name(cn, f)] = hv
        # every object's field value is well-formed (list lengths are non-negative), allocated or not
        x = ref.fresh('r')
        inner = self.wf_formula(fs, hsort.get(hv.t, x), 1)
        if inner is not None:
          self.assume(z3.ForAll([x], inner, patterns=[hsort.get(hv.t, x)]))
      al = S.SetOf(ref)
      self.env['$H.%s.$alloc' % cn] = V(al, al.fresh('alloc_%s' % cn))

  def heap_read(self, recv, attr):
    (rp, cn), b = self.heap_binding(recv.sort)
    fs = b[2][attr]
    h = self.env[self.heap_name(cn, attr)]
    org = ('heapfield', cn, attr, recv) if isinstance(fs, (S.SetOf, S.DictOf, S.Seq)) else None
    return V(fs, h.sort.get(h.t, recv.t), origin=org)

  def heap_write(self, recv, attr, val):
    (rp, cn), b = self.heap_binding(recv.sort)
    fs = b[2].get(attr)
    if fs is None:
      raise ContractMisfit('heap class %s has no field %s in its binding' % (cn, attr))
    val = self.coerce(val, fs)
    name = self.heap_name(cn, attr)
    h = self.env[name]
    self.env[name] = V(h.sort, h.sort.put(h.t, recv.t, val.t))

  def heap_new(self, key, b):
    """A fresh reference, different from every allocated one."""
    ref = b[1]
    r = V(ref, ref.fresh('new_' + key[1]))
    an = '$H.%s.$alloc' % key[1]
    al = self.env[an]
    self.assume(z3.Not(z3.Select(al.t, r.t)))
    self.env[an] = V(al.sort, z3.Store(al.t, r.t, z3.BoolVal(True)))
    return r

  def snapshot(self, v):
    if isinstance(v, Obj):
      return Obj(v.clsname, v.module, dict(v.fields))
    return v

  def verify(self, c):
    """Generate the obligations of one function against its contract."""
    mod = source.load(self.repo, c.file)
    if getattr(c, 'harness_src', None):
      # a proof harness (lemma) over real functions that are inlined / under contract
      fdef = ast.parse(c.harness_src).body[0]
    else:
      fdef = mod.func(c.qualname)
    decs = source.decorators(fdef)
    for d in decs:
      if d not in ('classmethod', 'staticmethod', 'property', 'overload', 'override'):
        raise Unsupported('decorator @%s on %s' % (d, c.qualname))
    loops = [n for n in ast.walk(fdef) if isinstance(n, (ast.For, ast.While))]
    loops.sort(key=lambda n: (n.lineno, n.col_offset))
    self.loop_ordinals = {id(n): i for i, n in enumerate(loops)}
    for k in c.loops:
      if k >= len(loops):
        raise ContractMisfit('%s: contract names loop #%d but the function has %d loops' % (
            c.label, k, len(loops)))
    # parameters of the def must be the contract's parameters
    a = fdef.args
    names = [x.arg for x in a.posonlyargs + a.args]
    if a.vararg:
      names.append(a.vararg.arg)
    names += [x.arg for x in a.kwonlyargs]
    if a.kwarg:
      names.append(a.kwarg.arg)
    if names != list(c.params):
      raise ContractMisfit('%s: parameters changed: code %s vs contract %s' % (
          c.label, names, list(c.params)))
    self.top_contract = c
    is_generator = any(isinstance(n, (ast.Yield, ast.YieldFrom)) for n in ast.walk(fdef)) and not getattr(c, 'harness_src', None)
    if is_generator and not isinstance(c.result, S.Seq):
      raise Unsupported('%s is a generator: its contract needs a sequence result sort' % c.label)
    self.is_generator = is_generator
    self.dec = Decisions()
    n_before = len(self.obligations)
    self.paths = 0
    exits = 0
    while True:
      self.reset_path()
      self.dec.restart()
      self.cur_contract = c
      self.cur_module = mod
      try:
        for pn, ps in c.params.items():
          self.env[pn] = self.make_param(pn, ps, mod)
        self.init_heap()
        if is_generator:
          # a generator function is verified as the builder of the list of the values it yields (ghost `yielded`)
          self.env['yielded'] = V(c.result, c.result.empty())
        self.entry_env = {k: self.snapshot(v) for k, v in self.env.items()}
        for r in c.requires:
          self.assume(self.spec(r))
        try:
          self.exec_block(fdef.body)
          self.at_return(c, self.env['yielded'] if is_generator else NONE)
          exits += 1
        except Return_ as r:
          self.at_return(c, self.env['yielded'] if is_generator else r.value)
          exits += 1
        except Raise_ as r:
          self.at_raise(c, r)
          exits += 1
        except (Break_, Continue_):
          raise Unsupported('break/continue outside loop')
      except PathEnd:
        pass
      self.paths += 1
      if self.paths > MAX_PATHS:
        raise Unsupported('%s: more than %d paths' % (c.label, MAX_PATHS))
      if not self.dec.advance():
        break
    self.exits = exits
    for anchor in c.asserts:
      if anchor not in self.used_anchors:
        # the lemma cannot be placed; the proof goes on without it (see main: undecided
        # unless the native search finds a failing input)
        self.missing_anchors.append('%s: no statement starts with the anchor %r' % (c.label, anchor))
    return self.obligations[n_before:], self.paths, exits

  def at_return(self, c, value):
    self.cur_line = None
    if c.result is not None and isinstance(c.result, S.Sort):
      value = self.coerce(value, c.result)
    self.env = dict(self.env)
    self.env['result'] = value
    if getattr(c, 'canary', False):
      self.oblige(z3.BoolVal(False), 'canary', 'ensures False must fail')
      return
    # a normal return requires that no `raises` condition holds (iff)
    saved_env = self.env
    for exc, cond in c.raises.items():
      self.env = dict(self.entry_env)
      self.env['result'] = value
      g = z3.Not(self.spec(cond))
      self.env = saved_env
      self.oblige(g, 'raises', 'normal return although %s is required: %s' % (exc, cond))
    for j, e in enumerate(c.ensures):
      aux = e.startswith('aux:')
      self.oblige(self.spec(e[4:] if aux else e), 'post', 'ensures[%d]%s: %s' % (j, ' (helper clause)' if aux else '', e), aux=aux)

  def at_raise(self, c, r):
    self.cur_line = None
    if r.excname in c.raises or any(self.theory.exc_is(r.excname, h) for h in c.raises):
      h = r.excname if r.excname in c.raises else [
          h for h in c.raises if self.theory.exc_is(r.excname, h)][0]
      if getattr(c, 'canary', False):
        self.oblige(z3.BoolVal(False), 'canary', 'raise path reachable')
        return
      saved = self.env
      self.env = dict(self.entry_env)
      g = self.spec(c.raises[h])
      self.env = saved
      self.oblige(g, 'raises', 'raises %s only if: %s' % (h, c.raises[h]))
      return
    if r.excname in c.raises_ensures:
      if getattr(c, 'canary', False):
        self.oblige(z3.BoolVal(False), 'canary', 'raise path reachable')
        return
      for j, e in enumerate(c.raises_ensures[r.excname]):
        self.oblige(self.spec(e), 'raises', 'at raise %s[%d]: %s' % (r.excname, j, e))
      return
    if r.excname in c.may_raise:
      return
    self.oblige(z3.BoolVal(False), 'safety', 'unexpected %s (%s)' % (r.excname, r.detail))
