"""Verify every contract of a theory and discharge the obligations."""
import time

from engine import smt
from engine.exec import Ex


def verify_theory(T, repo, timeout_s=60, only=None, canaries=True):
  ex = Ex(T, repo)
  per_fn = []
  for key, c in T.contracts.items():
    if not c.verify:
      continue
    if only and c.qualname not in only:
      continue
    t0 = time.time()
    obls, paths, exits = ex.verify(c)
    per_fn.append(dict(contract=c, obligations=obls, paths=paths, exits=exits,
                       gen_s=time.time() - t0))
  canary_obls = []
  if canaries:
    # `ensures False` must fail on some exit of every function: proves that the
    # preconditions, axioms and invariants are jointly satisfiable there.
    ex2 = Ex(T, repo)
    for key, c in T.contracts.items():
      if not c.verify or (only and c.qualname not in only):
        continue
      c.canary = True
      try:
        obls, _, _ = ex2.verify(c)
      finally:
        c.canary = False
      canary_obls.append((c, [o for o in obls if o.kind == 'canary']))
  allo = [o for f in per_fn for o in f['obligations']]
  cano = [o for _, os_ in canary_obls for o in os_]
  wall = smt.discharge(allo, timeout_s=timeout_s)
  # canaries: only `proved` (= the exit is unreachable/vacuous) is a failure, so a
  # short in-process budget suffices; sat/unknown both mean "not refuted".
  wall += smt.discharge(cano, timeout_s=1, first_ms=300, phase2=False)
  return per_fn, canary_obls, wall, ex
