"""Verify every contract of a theory and discharge the obligations."""
import time

from engine import smt
from engine.exec import Ex


def verify_theory(T, repo, timeout_s=60, only=None, canaries=True):
  # spec-level lemmas: proved from the definitional axioms alone, then available everywhere
  lemma_obls = []
  from engine.core import Obligation
  import z3
  base = list(T.axioms)
  for name, f in T.lemmas:
    # lemma k is proved from the axioms and the lemmas before it (each proved in turn)
    o = Obligation('%s/spec-lemma/%s' % (T.pid, name), 'lemma', list(base), f, detail='consequence of the spec definitions (and of the lemmas before it)')
    o.owner = 'spec'
    lemma_obls.append(o)
    base.append(f)
  for name, f in T.lemmas:
    T.axioms.append(f)
  ex = Ex(T, repo)
  per_fn = []
  for key, c in T.contracts.items():
    if not c.verify:
      continue
    if only and c.qualname not in only:
      continue
    t0 = time.time()
    obls, paths, exits = ex.verify(c)
    per_fn.append(dict(contract=c, obligations=obls, paths=paths, exits=exits,
                       gen_s=time.time() - t0))
  canary_obls = []
  if canaries:
    # `ensures False` must fail on some exit of every function: proves that the
    # preconditions, axioms and invariants are jointly satisfiable there.
    ex2 = Ex(T, repo)
    for key, c in T.contracts.items():
      if not c.verify or (only and c.qualname not in only):
        continue
      c.canary = True
      try:
        obls, _, _ = ex2.verify(c)
      finally:
        c.canary = False
      canary_obls.append((c, [o for o in obls if o.kind == 'canary']))
  allo = lemma_obls + [o for f in per_fn for o in f['obligations']]
  cano = [o for _, os_ in canary_obls for o in os_]
  # vacuity guard for the theory itself: the spec axioms (+ proved lemmas) must not be contradictory
  ax = Obligation('%s/spec/axioms-consistent' % T.pid, 'canary', list(T.axioms), z3.BoolVal(False),
                  detail='`false` must not follow from the spec axioms')
  ax.owner = 'spec'
  smt.discharge([ax], timeout_s=5, first_ms=1000, phase2=False)
  T.axioms_contradictory = (ax.status == 'proved')
  T.axioms_check = ax
  wall = smt.discharge(allo, timeout_s=timeout_s)
  # canaries: only `proved` (= the exit is unreachable/vacuous) is a failure, so a
  # short in-process budget suffices; sat/unknown both mean "not refuted".
  wall += smt.discharge(cano, timeout_s=1, first_ms=300, phase2=False, single=True)
  if lemma_obls:
    per_fn.insert(0, dict(contract=_SpecLemmas(T), obligations=lemma_obls, paths=1, exits=1, gen_s=0.0))
  return per_fn, canary_obls, wall, ex


class _SpecLemmas:
  """Pseudo-contract that owns the spec-level lemmas in reports."""

  def __init__(self, T):
    self.file = 'contracts/%s.py' % T.pid.lower()
    self.qualname = 'spec-lemmas'
    self.instance = {}
    self.loops = {}
    self.label = 'spec-lemmas'
    self.verify = True
    self.note = ''
