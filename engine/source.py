"""Extraction: re-reads the real source under --repo on every run (DESIGN 2.1)."""
import ast
import hashlib
import os


class ContractMisfit(Exception):
  """The contract no longer fits the code (function/loop/name is gone) -> exit 2."""


class Unsupported(Exception):
  """Construct outside the supported subset -> exit 3."""


class Module:
  """One parsed repo file with lookup helpers."""

  def __init__(self, repo, relpath, lowered=None):
    self.repo = repo
    self.relpath = relpath
    path = os.path.join(repo, relpath)
    if not os.path.exists(path):
      raise ContractMisfit('file missing: %s' % relpath)
    data = open(path, 'rb').read()
    self.sha256 = hashlib.sha256(data).hexdigest()
    if lowered is not None:
      # a non-Python file (C++): `lowered` is its mechanical lowering to the Python subset
      self.text = lowered
    else:
      self.text = data.decode('utf-8')
    self.tree = ast.parse(self.text, filename=path)
    self.assigns = {}   # module-level NAME = expr
    self.defs = {}      # qualname -> FunctionDef / ClassDef
    self.imports = {}   # local name -> ('module', dotted) | ('from', dotted, name)
    self._index(self.tree.body, '')
    for node in self.tree.body:
      if isinstance(node, ast.Assign) and len(node.targets) == 1 and isinstance(
          node.targets[0], ast.Name):
        self.assigns[node.targets[0].id] = node.value
      elif isinstance(node, ast.AnnAssign) and isinstance(
          node.target, ast.Name) and node.value is not None:
        self.assigns[node.target.id] = node.value
      elif isinstance(node, ast.Import):
        for a in node.names:
          self.imports[a.asname or a.name.split('.')[0]] = ('module', a.name)
      elif isinstance(node, ast.ImportFrom):
        for a in node.names:
          self.imports[a.asname or a.name] = ('from', node.module, a.name)

  def _index(self, body, prefix):
    for node in body:
      if isinstance(node, (ast.FunctionDef, ast.ClassDef)):
        q = prefix + node.name
        # keep the *last* non-overload definition
        if isinstance(node, ast.FunctionDef) and any(
            _dec_name(d) == 'overload' for d in node.decorator_list):
          continue
        self.defs[q] = node
        if isinstance(node, ast.ClassDef):
          self._index(node.body, q + '.')

  def func(self, qualname):
    node = self.defs.get(qualname)
    if not isinstance(node, ast.FunctionDef):
      raise ContractMisfit('%s: function %s not found' % (self.relpath, qualname))
    return node

  def cls(self, name):
    node = self.defs.get(name)
    if not isinstance(node, ast.ClassDef):
      raise ContractMisfit('%s: class %s not found' % (self.relpath, name))
    return node

  def class_bases(self, name):
    """Names of base classes defined in this module (transitively)."""
    out = []
    todo = [name]
    while todo:
      c = todo.pop()
      node = self.defs.get(c)
      if not isinstance(node, ast.ClassDef):
        continue
      for b in node.bases:
        if isinstance(b, ast.Name) and b.id in self.defs and b.id not in out:
          out.append(b.id)
          todo.append(b.id)
    return out

  def subclasses(self, name):
    return [c for c, n in self.defs.items()
            if isinstance(n, ast.ClassDef) and '.' not in c and
            (c == name or name in self.class_bases(c))]

  def resolve_method(self, clsname, meth):
    """Find `meth` on clsname or its in-module bases (MRO = declaration order)."""
    for c in [clsname] + self.class_bases(clsname):
      q = '%s.%s' % (c, meth)
      if isinstance(self.defs.get(q), ast.FunctionDef):
        return q
    return None

  def class_attr(self, clsname, attr):
    """Class-level `attr = expr` (or annotated) on clsname or its bases."""
    for c in [clsname] + self.class_bases(clsname):
      node = self.defs.get(c)
      for st in node.body:
        if isinstance(st, ast.Assign) and len(st.targets) == 1 and isinstance(
            st.targets[0], ast.Name) and st.targets[0].id == attr:
          return st.value
        if isinstance(st, ast.AnnAssign) and isinstance(
            st.target, ast.Name) and st.target.id == attr and st.value is not None:
          return st.value
    return None

  def init_fields(self, clsname):
    """Fields of a plain class whose __init__ only does `self.x = x` per parameter."""
    q = self.resolve_method(clsname, '__init__')
    if q is None:
      return []
    fn = self.defs[q]
    params = [a.arg for a in fn.args.args[1:]]
    got = []
    for st in fn.body:
      if isinstance(st, ast.Expr) and isinstance(st.value, ast.Constant):
        continue
      ok = (isinstance(st, ast.Assign) and len(st.targets) == 1 and
            isinstance(st.targets[0], ast.Attribute) and
            isinstance(st.targets[0].value, ast.Name) and st.targets[0].value.id == 'self' and
            isinstance(st.value, ast.Name) and st.value.id == st.targets[0].attr)
      if not ok:
        raise ContractMisfit('%s.__init__ is no longer a plain field initialiser' % clsname)
      got.append(st.value.id)
    if got != params:
      raise ContractMisfit('%s.__init__ stores %s but takes %s' % (clsname, got, params))
    return [(p, None) for p in params]

  def dataclass_fields(self, clsname):
    """Annotated instance fields in definition order (bases first), no ClassVar."""
    out = []
    for c in list(reversed(self.class_bases(clsname))) + [clsname]:
      for st in self.defs[c].body:
        if isinstance(st, ast.AnnAssign) and isinstance(st.target, ast.Name):
          ann = ast.unparse(st.annotation)
          if 'ClassVar' in ann:
            continue
          if st.target.id not in [f for f, _ in out]:
            out.append((st.target.id, st.value))
    return out


def _dec_name(d):
  if isinstance(d, ast.Call):
    d = d.func
  if isinstance(d, ast.Attribute):
    return d.attr
  if isinstance(d, ast.Name):
    return d.id
  return '?'


def decorators(fn):
  return [_dec_name(d) for d in fn.decorator_list]


_modules = {}


def load(repo, relpath):
  key = (repo, relpath)
  if key not in _modules:
    _modules[key] = Module(repo, relpath)
  return _modules[key]


def register_lowered(repo, relpath, text):
  m = Module(repo, relpath, lowered=text)
  _modules[(repo, relpath)] = m
  return m


def dotted_to_relpath(repo, dotted):
  p = dotted.replace('.', '/')
  if os.path.exists(os.path.join(repo, p + '.py')):
    return p + '.py'
  if os.path.exists(os.path.join(repo, p, '__init__.py')):
    return p + '/__init__.py'
  return None
