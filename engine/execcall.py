"""Calls: contracts, inlining, class construction, builtin models, comprehensions."""
import ast

import z3

from engine import sorts as S
from engine import values as Vl
from engine import source
from engine.core import Raise_, Return_, PathEnd, Unsupported, ContractMisfit
from engine.values import V, NONE, PyStr, PyTuple, Obj, ClassRef, FuncRef, ModuleRef, Builtin, BoundMethod, Closure


_ELEMS = {}


class CallMixin:

  def ev_Call(self, e):
    if self._is_log_call(e):
      return NONE
    fn = self.eval(e.func)
    args = []
    for a in e.args:
      if isinstance(a, ast.Starred):
        sv = self.eval(a.value)
        if isinstance(sv, PyTuple):
          args.extend(sv.items)
        else:
          args.append(('*', sv))
      else:
        args.append(self.eval(a))
    kwargs = {}
    for k in e.keywords:
      if k.arg is None:
        raise Unsupported('**kwargs call')
      kwargs[k.arg] = self.eval(k.value)
    return self.call(fn, args, kwargs, e)

  def call(self, fn, args, kwargs, node):
    if isinstance(fn, Builtin):
      return fn.fn(self, args, kwargs, node) if fn.needs_ex else fn.fn(*args, **kwargs)
    if isinstance(fn, BoundMethod):
      return self.call_method(fn, args, kwargs, node)
    if isinstance(fn, ClassRef):
      return self.construct(fn, args, kwargs, node)
    if isinstance(fn, FuncRef):
      return self.call_func(fn, args, kwargs, node)
    if isinstance(fn, Closure):
      return self.call_closure(fn, args, kwargs, node)
    if isinstance(fn, ModuleRef):
      raise Unsupported('call of unmodelled %s (line %s)' % (
          fn.dotted, getattr(node, 'lineno', '?')))
    raise Unsupported('call of %r' % (fn,))

  # -- class construction ---------------------------------------------------

  def construct(self, cref, args, kwargs, node):
    b = self.theory.classes.get((cref.module.relpath, cref.name))
    if b is None:
      raise Unsupported('class %s is not bound to a sort' % cref.name)
    if b[0] == 'opaque':
      return b[1](self, args, kwargs, node)
    if b[0] in ('adt', 'rec'):
      fields = cref.module.dataclass_fields(cref.name)
      if not fields:
        fields = cref.module.init_fields(cref.name)
      names = [f for f, _ in fields]
      if b[0] == 'adt':
        adt, ctor = b[1], b[2] or cref.name
        if ctor not in adt.ctors:
          raise Unsupported('class %s is abstract in sort %s' % (cref.name, adt))
        decl = adt.ctors[ctor][1]
        fsort = lambda f: adt.field_sorts[(ctor, f)]
      else:
        rec = b[1]
        decl = [f for f, _ in rec.fields]
        fsort = rec.field_sort
      if names != decl:
        raise ContractMisfit('fields of %s changed: code %s vs contract %s' % (
            cref.name, names, decl))
      vals = {}
      flat = []
      for a in args:
        if isinstance(a, tuple) and a and a[0] == '*':
          raise Unsupported('starred ctor arg')
        flat.append(a)
      if len(flat) > len(names):
        raise Unsupported('too many ctor args')
      for n, a in zip(names, flat):
        vals[n] = a
      for k, v in kwargs.items():
        if k not in names or k in vals:
          raise Unsupported('bad ctor kwarg %s' % k)
        vals[k] = v
      for n, default in fields:
        if n not in vals:
          if default is None:
            raise Unsupported('missing ctor arg %s' % n)
          vals[n] = self._eval_in_module(cref.module, default)
      ts = [self.coerce(vals[n], fsort(n)).t for n in names]
      if b[0] == 'adt':
        return V(adt, adt.make(ctor, ts))
      return V(rec, rec.make(ts))
    if b[0] == 'heap':
      r = self.heap_new((cref.module.relpath, cref.name), b)
      q = cref.module.resolve_method(cref.name, '__init__')
      if q is None:
        raise Unsupported('%s has no __init__' % cref.name)
      fdef = cref.module.func(q)
      fr = FuncRef(cref.module, q, bound_self=r)
      self.call_inline(fr, fdef, self.bind_args(fdef, args, kwargs, fr))
      return r
    if b[0] == 'obj':
      o = Obj(cref.name, cref.module, {})
      q = cref.module.resolve_method(cref.name, '__init__')
      if q is None:
        raise Unsupported('%s has no __init__' % cref.name)
      self.call_func(FuncRef(cref.module, q, bound_self=o), args, kwargs, node)
      return o
    raise Unsupported('construct %s' % cref.name)

  # -- functions ------------------------------------------------------------

  def bind_args(self, fdef, args, kwargs, fr):
    """Python argument binding for the callee's def; returns ordered dict."""
    a = fdef.args
    if a.posonlyargs:
      pos = [x.arg for x in a.posonlyargs] + [x.arg for x in a.args]
    else:
      pos = [x.arg for x in a.args]
    bound = {}
    decs = source.decorators(fdef)
    if 'staticmethod' not in decs and '.' in fr.qualname:
      first = pos[0]
      pos = pos[1:]
      if 'classmethod' in decs:
        bound[first] = fr.bound_cls
      else:
        bound[first] = fr.bound_self
        if fr.bound_self is None:
          # unbound call Class.method(obj, ...)
          bound[first] = args[0]
          args = args[1:]
    plain = [x for x in args if not (isinstance(x, tuple) and x and x[0] == '*')]
    stars = [x[1] for x in args if isinstance(x, tuple) and x and x[0] == '*']
    if a.vararg:
      npos = min(len(plain), len(pos))
      for n, v in zip(pos, plain[:npos]):
        bound[n] = v
      extra = plain[npos:]
      if stars:
        if extra or len(stars) > 1:
          raise Unsupported('mixed star args')
        bound[a.vararg.arg] = stars[0]
      else:
        bound[a.vararg.arg] = PyTuple(extra)
    else:
      if stars or len(plain) > len(pos):
        raise Unsupported('positional arity mismatch calling %s' % fr.qualname)
      for n, v in zip(pos, plain):
        bound[n] = v
    kwonly = [x.arg for x in a.kwonlyargs]
    for k, v in kwargs.items():
      if k in bound or (k not in pos and k not in kwonly):
        raise Unsupported('bad keyword %s calling %s' % (k, fr.qualname))
      bound[k] = v
    ndef = len(a.defaults)
    allpos = [x.arg for x in a.posonlyargs] + [x.arg for x in a.args]
    for n, d in zip(allpos[len(allpos) - ndef:], a.defaults):
      if n not in bound:
        bound[n] = self._eval_in_module(fr.module, d)
    for x, d in zip(a.kwonlyargs, a.kw_defaults):
      if x.arg not in bound:
        if d is None:
          raise Unsupported('missing kwonly %s' % x.arg)
        bound[x.arg] = self._eval_in_module(fr.module, d)
    for n in pos:
      if n not in bound:
        raise Unsupported('missing argument %s calling %s' % (n, fr.qualname))
    return bound

  def call_func(self, fr, args, kwargs, node):
    fdef = fr.module.func(fr.qualname)
    inst = {}
    if fr.bound_cls is not None:
      inst['cls'] = fr.bound_cls.name
    if isinstance(fr.bound_self, Obj):
      inst['self'] = fr.bound_self.clsname
    opq = self.theory.opaque.get((fr.module.relpath, fr.qualname))
    if opq is not None:
      bound = self.bind_args(fdef, args, kwargs, fr)
      return opq(self, bound, node)
    bound = self.bind_args(fdef, args, kwargs, fr)
    for pn, pv in bound.items():
      if isinstance(pv, ClassRef):
        inst.setdefault(pn, pv.name)
    c = self.theory.find_contract(fr.module.relpath, fr.qualname, inst)
    if c is not None and not (self.top_contract is c and self.depth == 0 and False):
      return self.call_contract(c, bound, node)
    if (fr.module.relpath, fr.qualname) in self.theory.inline:
      return self.call_inline(fr, fdef, bound)
    # a small loop-free helper without a contract (e.g. one extracted by a refactoring): its real body is
    # executed in place, which is exact; recorded so that the evidence lists it
    if self.depth < 3 and not any(isinstance(n, (ast.For, ast.While, ast.Try, ast.With, ast.Yield, ast.YieldFrom)) for n in ast.walk(fdef)) and len(fdef.body) <= 12:
      self.theory.__dict__.setdefault('auto_inlined', set()).add('%s::%s' % (fr.module.relpath, fr.qualname))
      return self.call_inline(fr, fdef, bound)
    raise Unsupported('call to %s:%s has neither contract nor inline mark (line %s)' % (
        fr.module.relpath, fr.qualname, getattr(node, 'lineno', '?')))

  def call_closure(self, cl, args, kwargs, node):
    fdef = cl.fdef
    names = [a.arg for a in fdef.args.args]
    if kwargs or fdef.args.vararg or fdef.args.kwarg or fdef.args.kwonlyargs or len(args) != len(names):
      raise Unsupported('call shape of local function %s (line %s)' % (fdef.name, getattr(node, 'lineno', '?')))
    saved = self.env
    self.env = dict(saved)          # reads see the enclosing variables as they are now
    for n, v in zip(names, args):
      self.env[n] = v
    assigned = {x.id for b in fdef.body for x in ast.walk(b) if isinstance(x, ast.Name) and isinstance(x.ctx, ast.Store)}
    self.depth += 1
    try:
      self.exec_block(fdef.body)
      return NONE
    except Return_ as r:
      return r.value
    finally:
      self.depth -= 1
      heap_now = {hn: hv for hn, hv in self.env.items() if hn.startswith('$H.')}
      self.env = saved
      self.env.update(heap_now)

  def call_inline(self, fr, fdef, bound):
    saved = (self.env, self.cur_module, self.cur_contract, self.loop_ordinals, self.aliases)
    self.env = dict(bound)
    for hn, hv in saved[0].items():
      if hn.startswith('$H.'):
        self.env[hn] = hv         # the heap is global state
    self.cur_module = fr.module
    self.aliases = {}
    self.depth += 1
    # loops inside inlined helpers need a contract too: reuse an (unverified) one if present
    try:
      self.exec_block(fdef.body)
      return NONE
    except Return_ as r:
      return r.value
    finally:
      self.depth -= 1
      heap_now = {hn: hv for hn, hv in self.env.items() if hn.startswith('$H.')}
      self.env, self.cur_module, self.cur_contract, self.loop_ordinals, self.aliases = saved
      self.env.update(heap_now)   # writes of the callee to heap objects are visible to the caller

  def call_contract(self, c, bound, node):
    """Modular call: assert pre, havoc, assume post (callee body not looked at)."""
    env = {}
    for pn, ps in c.params.items():
      if pn not in bound:
        raise ContractMisfit('%s: parameter %s missing at call' % (c.label, pn))
      v = bound[pn]
      if isinstance(ps, S.Sort):
        from engine.execcomp import Gen
        if isinstance(v, Gen) and isinstance(ps, S.Seq):
          v = self.comp_list(v)
        v = self.coerce(v, ps)
      env[pn] = v
    saved_env, saved_mod = self.env, self.cur_module
    self.env = dict(env)
    for hn, hv in saved_env.items():
      if hn.startswith('$H.'):
        self.env[hn] = hv
    self.cur_module = source.load(self.repo, c.file)
    try:
      for j, r in enumerate(c.requires):
        self.oblige(self.spec(r), 'pre@call', '%s requires[%d]: %s' % (c.label, j, r))
      # exceptional outcomes
      conds = []
      for exc, cond in c.raises.items():
        conds.append((exc, self.spec(cond)))
      if conds:
        k = self.dec_feasible([z3.Not(z3.Or(*[x for _, x in conds]))] + [x for _, x in conds], node, tag='raises:' + c.qualname)
        if k > 0:
          raise Raise_(conds[k - 1][0], 'from ' + c.label)
      for gn, gs in c.ghost_out.items():
        gv = V(gs, gs.fresh('ghost_' + gn))
        self.env[gn] = gv
        saved_env[gn] = gv        # ghost results are visible to the caller's specs
        self.path_ghosts[gn] = gv
      if c.raises_ensures:
        names = list(c.raises_ensures)
        k = self.dec.choose(1 + len(names))
        if k > 0:
          exc = names[k - 1]
          for r in c.raises_ensures[exc]:
            self.assume(self.spec(r))
          self.used_contracts.add(c.label)
          raise Raise_(exc, 'from ' + c.label)
      if c.result is None:
        res = NONE
      elif isinstance(c.result, S.Sort):
        bvars = [v for vs, _ in self.binders for v in vs]
        if bvars:
          # inside a comprehension/quantifier: the result depends on the bound variables
          fname = z3.FreshConst(z3.IntSort(), 'sk_' + c.qualname.split('.')[-1]).decl().name()
          f = z3.Function(fname, *([v.sort() for v in bvars] + [c.result.z3()]))
          res = V(c.result, f(*bvars))
        else:
          res = V(c.result, c.result.fresh('res_' + c.qualname.split('.')[-1]))
        self.assume_wf(res)
      else:
        raise Unsupported('contract result kind')
      self.env['result'] = res
      self.spec_env_old = dict(env)
      # parameters the callee mutates in place: a fresh post-state value, constrained by the ensures only
      # (old(p) is the value at the call); written back to the caller's lvalue afterwards
      post = {}
      for pn in getattr(c, 'mutates', ()):
        ps = c.params[pn]
        if not isinstance(ps, S.Sort):
          raise Unsupported('%s: mutated parameter %s must have a value sort' % (c.label, pn))
        nv = V(ps, ps.fresh('post_' + pn))
        self.assume_wf(nv)
        self.env[pn] = nv
        post[pn] = nv
      saved_old = getattr(self, 'call_old_env', None)
      hm = getattr(c, 'heap_mutates', ())
      if hm:
        # fields of heap objects the callee writes: havocked at that object only (old(...) = the heap at the call)
        self.spec_env_old = dict(self.env)
        for pn, fld in hm:
          recv = self.env[pn]
          (rp_, cn_), b_ = self.heap_binding(recv.sort)
          hn = self.heap_name(cn_, fld)
          h = self.env[hn]
          fs_ = b_[2][fld]
          nv = V(fs_, fs_.fresh('post_%s_%s' % (pn, fld)))
          self.assume_wf(nv)
          self.env[hn] = V(h.sort, h.sort.put(h.t, recv.t, nv.t))
      if post or hm:
        self.call_old_env = dict(self.spec_env_old)
      try:
        for r in c.ensures:
          self.assume(self.spec(r[4:] if r.startswith('aux:') else r))
      finally:
        self.call_old_env = saved_old
      self.used_contracts.add(c.label)
      if hm:
        for hn, hv in list(self.env.items()):
          if hn.startswith('$H.'):
            saved_env[hn] = hv      # the callee's heap writes are visible to the caller
      if post:
        self.env, self.cur_module = saved_env, saved_mod
        fdef_ = source.load(self.repo, c.file).func(c.qualname)
        pnames = [a.arg for a in fdef_.args.posonlyargs + fdef_.args.args]
        for pn, nv in post.items():
          lv = None
          if isinstance(node, ast.Call):
            if pnames and pn == pnames[0] and isinstance(node.func, ast.Attribute) and not isinstance(self.eval(node.func.value), (ClassRef, ModuleRef)):
              lv = node.func.value
            else:
              off = 1 if (pnames and isinstance(node.func, ast.Attribute) and not isinstance(self.eval(node.func.value), (ClassRef, ModuleRef))) else 0
              idx = pnames.index(pn) - off if pn in pnames else -1
              if 0 <= idx < len(node.args):
                lv = node.args[idx]
              for kw in node.keywords:
                if kw.arg == pn:
                  lv = kw.value
          if lv is None:
            raise Unsupported('%s: cannot find the caller lvalue of mutated parameter %s' % (c.label, pn))
          self.store_back(lv, nv)
      return res
    finally:
      self.env, self.cur_module = saved_env, saved_mod

  def dec_feasible(self, alternatives, node, tag=''):
    """Choose among mutually exclusive alternatives; assume the chosen one.

    Infeasible alternatives are skipped (cached by decision prefix)."""
    key = (self.dec.prefix(), getattr(node, 'lineno', 0), getattr(node, 'col_offset', 0), tag, len(alternatives))
    feas = self.feas_cache.get(key)
    if feas is None:
      feas = []
      for i, a in enumerate(alternatives):
        if self.feasible(a):
          feas.append(i)
      self.feas_cache[key] = feas
    if not feas:
      raise PathEnd()
    k = feas[0] if len(feas) == 1 else feas[self.dec.choose(len(feas))]
    self.assume(alternatives[k])
    return k

  # -- methods on values ------------------------------------------------------

  def call_method(self, bm, args, kwargs, node):
    recv, name = bm.recv, bm.name
    if isinstance(recv, V):
      mm = self.theory.method_models.get((recv.sort.name, name))
      if mm:
        return mm(self, recv, args, kwargs)
      s = recv.sort
      if isinstance(s, S.SetOf):
        return self.set_method(bm, s, name, args, node)
      if isinstance(s, S.Seq):
        return self.seq_method(bm, s, name, args, node)
      if isinstance(s, S.DictOf):
        return self.dict_method(bm, s, name, args, kwargs, node)
    raise Unsupported('method %s on %r (line %s)' % (name, recv, getattr(node, 'lineno', '?')))

  def set_method(self, bm, s, name, args, node):
    t = bm.recv.t
    if name == 'add':
      x = self.coerce(args[0], s.elem)
      self.store_back(bm.lval, V(s, z3.Store(t, x.t, z3.BoolVal(True))))
      return NONE
    if name == 'discard':
      x = self.coerce(args[0], s.elem)
      self.store_back(bm.lval, V(s, z3.Store(t, x.t, z3.BoolVal(False))))
      return NONE
    if name == 'pop':
      x = s.elem.fresh('popped')
      self.oblige(z3.Not(s.is_empty(t)), 'safety', 'pop from non-empty set')
      self.assume(z3.Select(t, x))
      self.store_back(bm.lval, V(s, z3.Store(t, x, z3.BoolVal(False))))
      return V(s.elem, x)
    if name in ('union', 'difference', 'intersection'):
      o = args[0]
      if (isinstance(o, V) and isinstance(o.sort, S.Seq)) or (isinstance(o, PyTuple) and o.items):
        o = self.to_set(o)
      o = self.coerce(o, s)
      x = s.elem.fresh('x')
      if name == 'union':
        return V(s, z3.Lambda([x], z3.Or(t[x], o.t[x])))
      if name == 'difference':
        return V(s, z3.Lambda([x], z3.And(t[x], z3.Not(o.t[x]))))
      return V(s, z3.Lambda([x], z3.And(t[x], o.t[x])))
    raise Unsupported('set.%s' % name)

  def seq_method(self, bm, s, name, args, node):
    t = bm.recv.t
    if name == 'append':
      x = self.coerce(args[0], s.elem)
      n = s.len(t)
      newarr = z3.Store(s.arr(t), n, x.t)
      self.store_back(bm.lval, V(s, s.mk(newarr, n + 1)))
      if getattr(self.theory, 'append_frame_trigger', False) and not self.binders:
        # redundant consequence of the array theory, triggered on the OLD list's elements, so that
        # witnesses known for the old list are carried over to the new one by E-matching
        p_ = z3.FreshConst(z3.IntSort(), 'p')
        self.assume(z3.ForAll([p_], z3.Implies(z3.And(0 <= p_, p_ < n), z3.Select(newarr, p_) == z3.Select(s.arr(t), p_)),
                              patterns=[z3.Select(s.arr(t), p_)]))
      return NONE
    if name == 'extend':
      # list.extend(iterable): the old elements followed by the new ones.  For a generator argument the elements are
      # computed against the list as it was BEFORE the call (CPython evaluates it lazily while extending: a filter that
      # looks at the list being extended may drop later duplicates) -- contracts must speak about membership only.
      from engine.execcomp import Gen
      o = args[0]
      if isinstance(o, Gen):
        o = self.comp_list(o)
      if isinstance(o, PyTuple):
        o = self.coerce(o, s) if o.items else V(s, s.empty())
      o = self.coerce(o, s)
      self.store_back(bm.lval, V(s, s.concat(t, o.t)))
      return NONE
    if name == 'pop' and not args:
      n = s.len(t)
      self.oblige_or_raise(n > 0, 'IndexError', 'pop from non-empty list', node)
      self.store_back(bm.lval, V(s, s.mk(s.arr(t), n - 1)))
      return V(s.elem, s.at(t, n - 1))
    if name == 'index':
      x = self.coerce(args[0], s.elem)
      self.oblige(s.contains(t, x.t), 'safety', 'list.index of present element')
      r = z3.FreshConst(z3.IntSort(), 'idx')
      k = z3.FreshConst(z3.IntSort(), 'k')
      self.assume(z3.And(0 <= r, r < s.len(t), s.elem.eq(s.at(t, r), x.t),
                         z3.ForAll([k], z3.Implies(z3.And(0 <= k, k < r),
                                                   z3.Not(s.elem.eq(s.at(t, k), x.t))))))
      return V(S.INT, r)
    if name == 'remove' and len(args) == 1:
      # removes the first occurrence (ValueError if absent)
      x = self.coerce(args[0], s.elem)
      n = s.len(t)
      self.oblige_or_raise(s.contains(t, x.t), 'ValueError', 'list.remove(x): x in list', node)
      pos = z3.FreshConst(z3.IntSort(), 'rmpos')
      k_ = z3.FreshConst(z3.IntSort(), 'k')
      self.assume(z3.And(0 <= pos, pos < n, s.elem.eq(s.at(t, pos), x.t),
                         z3.ForAll([k_], z3.Implies(z3.And(0 <= k_, k_ < pos), z3.Not(s.elem.eq(s.at(t, k_), x.t))))))
      rest = z3.FreshConst(z3.ArraySort(z3.IntSort(), s.elem.z3()), 'removed')
      self.assume(z3.ForAll([k_], z3.Implies(z3.And(0 <= k_, k_ < n - 1),
                                             z3.Select(rest, k_) == z3.If(k_ < pos, s.at(t, k_), s.at(t, k_ + 1))),
                            patterns=[z3.Select(rest, k_)]))
      self.store_back(bm.lval, V(s, s.mk(rest, n - 1)))
      return NONE
    if name == 'popleft' and not args:
      # collections.deque modelled as a list (A-LIB): popleft() == pop(0)
      n = s.len(t)
      self.oblige_or_raise(n > 0, 'IndexError', 'popleft from non-empty deque', node)
      p_ = z3.FreshConst(z3.IntSort(), 'p')
      tail = z3.FreshConst(z3.ArraySort(z3.IntSort(), s.elem.z3()), 'tail')
      # a named array with pointwise facts triggered from both sides (E-matching cannot invert p+1)
      self.assume(z3.ForAll([p_], z3.Implies(z3.And(0 <= p_, p_ < n - 1), z3.Select(tail, p_) == s.at(t, p_ + 1)),
                            patterns=[z3.Select(tail, p_)]))
      self.assume(z3.ForAll([p_], z3.Implies(z3.And(1 <= p_, p_ < n), z3.Select(tail, p_ - 1) == s.at(t, p_)),
                            patterns=[s.at(t, p_)]))
      self.store_back(bm.lval, V(s, s.mk(tail, n - 1)))
      return V(s.elem, s.at(t, 0))
    if name == 'extendleft' and len(args) == 1 and isinstance(args[0], tuple) and args[0] and args[0][0] == 'reversed':
      # extendleft(reversed(ys)) prepends ys keeping their order
      ys = self.coerce(args[0][1], s) if not isinstance(args[0][1], V) else args[0][1]
      if ys.sort is not s:
        raise Unsupported('extendleft of %s onto %s' % (ys.sort, s))
      self.store_back(bm.lval, V(s, s.concat(ys.t, t)))
      return NONE
    raise Unsupported('list.%s' % name)

  def dict_method(self, bm, s, name, args, kwargs, node):
    t = bm.recv.t
    if name == 'items':
      return ('dict_items', bm.recv)
    if name == 'keys':
      return V(S.SetOf(s.key), s.dom(t))
    if name == 'values':
      return ('dict_values', bm.recv)
    if name == 'get':
      k = self.coerce(args[0], s.key)
      has = s.has(t, k.t)
      if len(args) > 1:
        d = self.coerce(args[1], s.val)
        return V(s.val, z3.If(has, s.get(t, k.t), d.t))
      so = S.Opt(s.val)
      return V(so, z3.If(has, so.some(s.get(t, k.t)), so.none()))
    if name == 'update':
      o = self.coerce(args[0], s)
      x = s.key.fresh('x')
      dom = z3.Lambda([x], z3.Or(s.has(t, x), s.has(o.t, x)))
      val = z3.Lambda([x], z3.If(s.has(o.t, x), s.get(o.t, x), s.get(t, x)))
      self.store_back(bm.lval, V(s, s.mk(dom, val)))
      return NONE
    raise Unsupported('dict.%s' % name)

  def to_set(self, v):
    """set(iterable)."""
    if isinstance(v, PyTuple) and not v.items:
      return PyTuple([])
    if isinstance(v, PyTuple) and all(isinstance(i, PyStr) for i in v.items):
      # a literal tuple of strings (module-level constant sets): membership is a finite disjunction
      ss = S.SetOf(S.STR)
      x = S.STR.fresh('x')
      lits = [self.coerce(i, S.STR).t for i in v.items]
      return V(ss, z3.Lambda([x], z3.Or(*[x == l for l in lits])))
    if isinstance(v, V):
      s = v.sort
      if isinstance(s, S.SetOf):
        return V(s, v.t)  # a copy: no shared origin
      if isinstance(s, S.Seq) and v.t.get_id() in S._CONCATS:
        a, b = S._CONCATS[v.t.get_id()]
        sa, sb = self.to_set(V(s, a)), self.to_set(V(s, b))
        x = s.elem.fresh('x')
        return V(sa.sort, z3.Lambda([x], z3.Or(S.select(sa.t, x), S.select(sb.t, x))))
      if isinstance(s, S.Seq) and v.t.get_id() in S._EXACT_SLICES:
        # set(base[lo:hi]) with bounds in range: membership stated over the base sequence directly
        base, lo, hi = S._EXACT_SLICES[v.t.get_id()]
        ss = S.SetOf(s.elem)
        x = s.elem.fresh('x')
        k = z3.FreshConst(z3.IntSort(), 'k')
        return V(ss, z3.Lambda([x], z3.Exists([k], z3.And(lo <= k, k < hi, s.at(base, k) == x))))
      if isinstance(s, S.Seq):
        ss = S.SetOf(s.elem)
        # a named function of the sequence (congruence: the same sequence gives the same
        # set term), defined by: x in elems(q) <=> x occurs in q
        key = 'elems_' + S._mangle(s.name)
        cache = self.theory.__dict__.setdefault('_elems', {})
        if key not in cache:
          f = z3.Function(key, s.z3(), ss.z3())
          q = s.fresh('q')
          x = s.elem.fresh('x')
          self.theory.axioms.append(z3.ForAll(
              [q, x], z3.Select(f(q), x) == s.contains(q, x), patterns=[z3.Select(f(q), x)]))
          cache[key] = f
        return V(ss, cache[key](v.t))
      if isinstance(s, S.DictOf):
        return V(S.SetOf(s.key), s.dom(v.t))
    raise Unsupported('set(%r)' % (v,))

  # -- iteration ------------------------------------------------------------

  def iter_to_seq(self, it, node):
    """Ghost sequence enumerating an iterable (arbitrary order for sets/dicts)."""
    if isinstance(it, V) and it.sort.name in self.theory.as_set:
      it = self.theory.as_set[it.sort.name](self, it)
    if isinstance(it, V):
      s = it.sort
      if isinstance(s, S.Seq):
        return it
      if isinstance(s, S.SetOf):
        return self.enum_set(it.t, s.elem)
      if isinstance(s, S.DictOf):
        return self.enum_set(s.dom(it.t), s.key)
    if isinstance(it, tuple) and it and it[0] == 'range':
      lo, hi = it[1], it[2]
      si = S.Seq(S.INT)
      p = z3.FreshConst(z3.IntSort(), 'p')
      return V(si, si.mk(z3.Lambda([p], z3.simplify(lo + p)), z3.simplify(z3.If(hi > lo, hi - lo, z3.IntVal(0)))))
    if isinstance(it, tuple) and it and it[0] == 'enumerate':
      inner = self.iter_to_seq(it[1], node)
      ts = S.Tup(S.INT, inner.sort.elem)
      p = z3.FreshConst(z3.IntSort(), 'p')
      arr = z3.Lambda([p], ts.make([p, inner.sort.at(inner.t, p)]))
      return V(S.Seq(ts), S.Seq(ts).mk(arr, inner.sort.len(inner.t)))
    if isinstance(it, tuple) and it and it[0] == 'dict_items':
      d = it[1]
      s = d.sort
      keys = self.enum_set(s.dom(d.t), s.key)
      ks = keys.sort
      ts = S.Tup(s.key, s.val)
      p = z3.FreshConst(z3.IntSort(), 'p')
      arr = z3.Lambda([p], ts.make([ks.at(keys.t, p), s.get(d.t, ks.at(keys.t, p))]))
      return V(S.Seq(ts), S.Seq(ts).mk(arr, ks.len(keys.t)))
    if isinstance(it, PyTuple) and all(isinstance(i, V) for i in it.items) and it.items:
      return self.seq_of(it.items)
    raise Unsupported('iteration over %r (line %s)' % (it, getattr(node, 'lineno', '?')))

  def enum_set(self, arr, elem):
    ss = S.Seq(elem)
    q = ss.fresh('order')
    n = ss.len(q)
    i = z3.FreshConst(z3.IntSort(), 'i')
    j = z3.FreshConst(z3.IntSort(), 'j')
    x = elem.fresh('x')
    self.assume(n >= 0)
    self.assume(z3.ForAll([i, j], z3.Implies(
        z3.And(0 <= i, i < j, j < n), ss.at(q, i) != ss.at(q, j))))
    self.assume(z3.ForAll([i], z3.Implies(z3.And(0 <= i, i < n),
                                          z3.Select(arr, ss.at(q, i)))))
    self.assume(z3.ForAll([x], z3.Implies(
        z3.Select(arr, x),
        z3.Exists([i], z3.And(0 <= i, i < n, ss.at(q, i) == x)))))
    return V(ss, q)
