"""C++ front end: clang JSON AST of the real .cc file -> Python AST in the executor's subset.

Re-run on every check (clang++ -fsyntax-only -Xclang -ast-dump=json on /repo's file), so the
verified text is the text that is compiled.  The lowering is type-directed and mechanical:

  int                  -> mathematical Int, every int-typed arithmetic result wrapped in chk_int()
                          (signed overflow is UB: an obligation, not an assumption)
  std::size_t          -> non-negative Int, arithmetic wrapped in chk_size()
  std::int64_t / long  -> 64-bit bit-vector (bv(...), bvand, bvor, bvshl, bvnz)
  std::vector<T>       -> list value; operator[] keeps the executor's bounds obligation (UB otherwise)
  T* p = v.data()      -> p is replaced by the row expression v at every use (p[j] == v[j]);
                          side condition checked here: the index expression of v is not assigned later
  x / 64, x & 63       -> cdiv / iand (defined for non-negative x: obligation)
  for (int i = lo; i < hi; i++) -> for i in range(lo, hi)   (hi must not be assigned in the body)

Dropped: LOG(...) stream statements.  Anything else is a hard error (Unsupported).
"""
import ast
import hashlib
import json
import os
import subprocess

from engine.source import ContractMisfit, Unsupported

PYINC = '/root/.pyenv/versions/3.12.1/include/python3.12'
PB11 = '/venv/lib/python3.12/site-packages/pybind11/include'


def clang_ast(repo, relpath, flt):
  path = os.path.join(repo, relpath)
  if not os.path.exists(path):
    raise ContractMisfit('file missing: %s' % relpath)
  cmd = ['clang++', '-std=c++17', '-fsyntax-only', '-I' + os.path.dirname(path), '-I' + PYINC, '-I' + PB11,
         '-Xclang', '-ast-dump=json', '-Xclang', '-ast-dump-filter=' + flt, path]
  p = subprocess.run(cmd, capture_output=True, text=True)
  if p.returncode != 0 and not p.stdout.strip():
    raise Unsupported('clang failed on %s: %s' % (relpath, p.stderr[-1500:]))
  dec = json.JSONDecoder()
  s, i, docs = p.stdout, 0, []
  while i < len(s):
    while i < len(s) and s[i].isspace():
      i += 1
    if i >= len(s):
      break
    d, i = dec.raw_decode(s, i)
    docs.append(d)
  return docs


def sha256(repo, relpath):
  return hashlib.sha256(open(os.path.join(repo, relpath), 'rb').read()).hexdigest()


def _ty(n):
  t = n.get('type', {})
  q = t.get('desugaredQualType') or t.get('qualType', '')
  q = q.replace('const ', '').strip()
  return q


def kind_of(n):
  q = _ty(n)
  if q.endswith('*'):
    return 'ptr'
  if q in ('int',):
    return 'int'
  if q in ('unsigned long', 'std::size_t', 'size_t', 'std::vector::size_type', 'size_type', 'unsigned long long'):
    return 'size'
  if q in ('long', 'std::int64_t', 'long long', 'int64_t'):
    return 'bv'
  if q in ('bool', '_Bool'):
    return 'bool'
  if q.startswith('std::vector') or 'vector<' in q or 'value_type' in q or 'reference' in q:
    return 'vec'
  return 'other:' + q


def _is_word_ptr(n):
  q = _ty(n)
  return q.rstrip(' *').strip() in ('long', 'std::int64_t', 'long long', 'int64_t')


class Lower:
  """Lowers one function/method definition."""

  def __init__(self, fn):
    self.fn = fn
    self.ptrs = {}     # pointer variable -> python source of the row it points into
    self.lines = []

  def run(self):
    params = [c for c in self.fn.get('inner', []) if c['kind'] == 'ParmVarDecl']
    body = [c for c in self.fn.get('inner', []) if c['kind'] == 'CompoundStmt']
    if not body:
      raise ContractMisfit('%s has no body' % self.fn.get('name'))
    is_method = self.fn['kind'] in ('CXXMethodDecl', 'CXXConstructorDecl')
    names = (['self'] if is_method else []) + [p['name'] for p in params]
    out = ['def %s(%s):' % (self.fn['name'], ', '.join(names))]
    stmts = self.block(body[0], 1)
    out.extend(stmts or ['  pass'])
    return '\n'.join(out) + '\n', names

  # -- statements -----------------------------------------------------------

  def block(self, n, ind):
    out = []
    for c in n.get('inner', []):
      out.extend(self.stmt(c, ind))
    return out

  def stmt(self, n, ind):
    pad = '  ' * ind
    k = n['kind']
    if k == 'CompoundStmt':
      return self.block(n, ind)
    if k == 'DeclStmt':
      out = []
      for v in n['inner']:
        if v['kind'] != 'VarDecl':
          raise Unsupported('declaration %s' % v['kind'])
        init = v.get('inner', [None])[0] if v.get('inner') else None
        if init is None:
          raise Unsupported('uninitialised local %s' % v['name'])
        if kind_of(v) == 'ptr' and _is_word_ptr(v):
          self.ptrs[v['name']] = self.rowref(init)
          continue
        pre, e = self.expr_with_effects(init)
        out.extend(pad + p for p in pre)
        out.append(pad + '%s = %s' % (v['name'], self.conv(e, self.kind_expr(init), kind_of(v))))
      return out
    if k == 'ForStmt':
      init, _, cond, inc, body = (n['inner'] + [{}] * 5)[:5]
      m = self.canonical_for(init, cond, inc)
      if m is None:
        # general form: init; while (cond) { body; inc; }   (no `continue` support needed here)
        out = self.stmt(init, ind) if init.get('kind') else []
        out.append(pad + 'while %s:' % (self.cond(cond) if cond.get('kind') else 'True'))
        b = self.stmt(body, ind + 1)
        if any('continue' in l for l in b):
          raise Unsupported('continue inside a non-canonical for loop')
        out.extend(b)
        if inc.get('kind'):
          out.extend(self.stmt(inc, ind + 1))
        return out
      var, lo, hi = m
      out = []
      if kind_of(init['inner'][0]) == 'int':
        out.append(pad + 'chk_int(%s)' % hi)   # the int loop counter reaches hi: must be representable
      out.append(pad + 'for %s in range(%s, %s):' % (var, lo, hi))
      b = self.stmt(body, ind + 1)
      out.extend(b or [pad + '  pass'])
      return out
    if k == 'CXXForRangeStmt':
      # for (T x : range)  ->  for x in range   (range: a vector-valued expression; begin/end/++/* are the library's)
      inner = n['inner']
      decls = [c for c in inner if c.get('kind') == 'DeclStmt']
      if len(decls) != 4:
        raise Unsupported('range-for shape')
      rng = decls[0]['inner'][0]
      loopvar = decls[3]['inner'][0]
      body = inner[-1]
      out = [pad + 'for %s in %s:' % (loopvar['name'], self.expr(rng['inner'][0]))]
      out.extend(self.stmt(body, ind + 1) or [pad + '  pass'])
      return out
    if k == 'IfStmt':
      inner = n['inner']
      out = [pad + 'if %s:' % self.cond(inner[0])]
      out.extend(self.stmt(inner[1], ind + 1) or [pad + '  pass'])
      if len(inner) > 2:
        out.append(pad + 'else:')
        out.extend(self.stmt(inner[2], ind + 1) or [pad + '  pass'])
      return out
    if k == 'ReturnStmt':
      if n.get('inner'):
        return [pad + 'return ' + self.expr(n['inner'][0])]
      return [pad + 'return']
    if k == 'CompoundAssignOperator':
      l, r = n['inner']
      op = n['opcode']
      L = self.expr(l)
      if kind_of(l) == 'bv' and op in ('|=', '&='):
        return [pad + '%s = %s(%s, %s)' % (L, 'bvor' if op == '|=' else 'bvand', L, self.expr(r))]
      if op in ('+=', '-=') and kind_of(l) in ('int', 'size'):
        return [pad + '%s = chk_%s(%s %s %s)' % (L, kind_of(l), L, op[0], self.expr(r))]
      raise Unsupported('compound assignment %s on %s' % (op, kind_of(l)))
    if k == 'BinaryOperator' and n.get('opcode') == '=':
      l, r = n['inner']
      return [pad + '%s = %s' % (self.expr(l), self.conv(self.expr(r), self.kind_expr(r), kind_of(l)))]
    if k == 'UnaryOperator' and n.get('opcode') in ('++', '--'):
      t = self.expr(n['inner'][0])
      return [pad + '%s = chk_%s(%s %s 1)' % (t, kind_of(n['inner'][0]), t, '+' if n['opcode'] == '++' else '-')]
    if k == 'CXXMemberCallExpr':
      me = n['inner'][0]
      meth = me.get('name')
      obj = self.expr(me['inner'][0])
      args = [self.expr(a) for a in n['inner'][1:] if a.get('kind') != 'CXXDefaultArgExpr']
      if meth == 'resize':
        if len(args) == 1:
          return [pad + '%s = vresize(%s, %s)' % (obj, obj, args[0])]
        return [pad + '%s = vresize(%s, %s, %s)' % (obj, obj, args[0], self.conv(args[1], self.kind_expr(n['inner'][2]), 'bv'))]
      if meth == 'push_back':
        return [pad + '%s = vpush(%s, %s)' % (obj, obj, args[0])]
      return [pad + self.expr(n)]
    if k == 'ExprWithCleanups':
      return self.stmt(n['inner'][0], ind)
    if k == 'NullStmt':
      return []
    if k in ('CallExpr', 'CXXOperatorCallExpr'):
      txt = json.dumps(n)
      if 'LOG' in txt[:4000] or 'basic_ostream' in txt[:6000]:
        return []   # logging stream statement: dropped
      return [pad + self.expr(n)]
    raise Unsupported('C++ statement %s' % k)

  def canonical_for(self, init, cond, inc):
    try:
      v = init['inner'][0]
      var = v['name']
      lo = self.expr(v['inner'][0])
      if cond['kind'] != 'BinaryOperator' or cond['opcode'] != '<':
        return None
      l, r = cond['inner']
      if self.expr(l).replace('to_size(', '').rstrip(')') != var:
        return None
      hi = self.expr(r)
      if inc['kind'] != 'UnaryOperator' or inc['opcode'] != '++':
        return None
      return var, lo, hi
    except (KeyError, IndexError):
      return None

  # -- expressions ----------------------------------------------------------

  def kind_expr(self, n):
    return kind_of(n)

  def conv(self, e, src, dst):
    if src == dst or dst.startswith('other') or src.startswith('other'):
      return e
    if dst == 'int' and src == 'size':
      return 'to_int(%s)' % e
    if dst == 'size' and src == 'int':
      return 'to_size(%s)' % e
    if dst == 'bv' and src in ('int', 'size'):
      return 'bv_of_int(%s)' % e
    if dst == 'bool' and src == 'bv':
      return 'bvnz(%s)' % e
    if dst == 'bool' and src in ('int', 'size'):
      return '(%s != 0)' % e
    return e

  def cond(self, n):
    e = self.expr(n)
    k = kind_of(n)
    if k == 'bv':
      return 'bvnz(%s)' % e
    return e

  def expr_with_effects(self, n):
    """`x = y++` style initialisers: returns (statements to run after, expr)."""
    inner = n
    while inner['kind'] in ('ImplicitCastExpr', 'ParenExpr'):
      casts = inner
      inner = inner['inner'][0]
    if inner['kind'] == 'UnaryOperator' and inner.get('isPostfix') and inner['opcode'] == '++':
      t = self.expr(inner['inner'][0])
      tmp = '_old_' + t.replace('self.', '').replace('[', '_').replace(']', '')
      kk = kind_of(inner['inner'][0])
      # value before the increment, then the increment
      return ['%s = %s' % (tmp, t), '%s = chk_%s(%s + 1)' % (t, kk, t)], self.conv(tmp, kk, kind_of(n))
    return [], self.expr(n)

  def rowref(self, n):
    """T* p = <vector row>.data()  ->  source of the row expression."""
    while n['kind'] in ('ImplicitCastExpr', 'ExprWithCleanups'):
      n = n['inner'][0]
    if n['kind'] == 'CXXMemberCallExpr' and n['inner'][0].get('name') == 'data':
      return self.expr(n['inner'][0]['inner'][0])
    raise Unsupported('pointer initialiser %s' % n['kind'])

  def expr(self, n):
    k = n['kind']
    if k in ('ImplicitCastExpr', 'CXXStaticCastExpr', 'CStyleCastExpr'):
      sub = n['inner'][0]
      ck = n.get('castKind')
      e = self.expr(sub)
      if ck == 'IntegralToBoolean':
        return self.conv(e, kind_of(sub), 'bool')
      if ck == 'IntegralCast':
        return self.conv(e, kind_of(sub), kind_of(n))
      return e
    if k == 'ParenExpr':
      return '(%s)' % self.expr(n['inner'][0])
    if k == 'DeclRefExpr':
      name = n['referencedDecl']['name']
      if name in self.ptrs:
        return self.ptrs[name]
      return name
    if k == 'MemberExpr':
      base = n['inner'][0]
      if base['kind'] == 'CXXThisExpr':
        return 'self.' + n['name']
      return '%s.%s' % (self.expr(base), n['name'])
    if k == 'CXXThisExpr':
      return 'self'
    if k == 'IntegerLiteral':
      return 'bv(%s)' % n['value'] if kind_of(n) == 'bv' else str(n['value'])
    if k == 'CXXBoolLiteralExpr':
      return 'True' if n['value'] else 'False'
    if k == 'ConditionalOperator':
      c, a, b = n['inner']
      return '(%s if %s else %s)' % (self.expr(a), self.cond(c), self.expr(b))
    if k == 'BinaryOperator':
      l, r = n['inner']
      op = n['opcode']
      kl, kr, kn = kind_of(l), kind_of(r), kind_of(n)
      L, R = self.expr(l), self.expr(r)
      if op in ('<', '<=', '>', '>=', '==', '!='):
        if kl == 'bv' or kr == 'bv':
          if op in ('==', '!='):
            return '(%s %s %s)' % (L, op, R)
          raise Unsupported('ordered comparison of 64-bit values')
        return '(%s %s %s)' % (L, op, R)
      if op in ('&&', '||'):
        return '(%s %s %s)' % (self.cond(l), 'and' if op == '&&' else 'or', self.cond(r))
      if kn == 'bv':
        if op == '&':
          return 'bvand(%s, %s)' % (L, R)
        if op == '|':
          return 'bvor(%s, %s)' % (L, R)
        if op == '<<':
          return 'bvshl(%s, %s)' % (L, R)
        raise Unsupported('64-bit operator %s' % op)
      if kn in ('int', 'size'):
        if op == '/':
          return 'cdiv(%s, %s)' % (L, R)
        if op == '&':
          return 'iand(%s, %s)' % (L, R)
        if op == '%':
          return 'cmod(%s, %s)' % (L, R)
        if op in ('+', '-', '*'):
          return 'chk_%s(%s %s %s)' % (kn, L, op, R)
      raise Unsupported('operator %s on %s' % (op, kn))
    if k == 'UnaryOperator':
      op = n['opcode']
      if op == '!':
        return '(not %s)' % self.cond(n['inner'][0])
      if op == '-' and kind_of(n) == 'int':
        return 'chk_int(-%s)' % self.expr(n['inner'][0])
      raise Unsupported('unary %s' % op)
    if k == 'CXXOperatorCallExpr':
      callee = n['inner'][0]
      while callee['kind'] == 'ImplicitCastExpr':
        callee = callee['inner'][0]
      opname = callee.get('referencedDecl', {}).get('name')
      if opname == 'operator[]':
        return '%s[%s]' % (self.expr(n['inner'][1]), self.expr(n['inner'][2]))
      if opname == 'operator->':
        return self.expr(n['inner'][1])     # unique_ptr<T>::operator-> : the owned object (A-MEM)
      raise Unsupported('operator call %s' % opname)
    if k == 'ArraySubscriptExpr':
      return '%s[%s]' % (self.expr(n['inner'][0]), self.expr(n['inner'][1]))
    if k == 'CXXMemberCallExpr':
      me = n['inner'][0]
      meth = me.get('name')
      obj = self.expr(me['inner'][0])
      args = [self.expr(a) for a in n['inner'][1:]]
      if meth == 'size':
        return 'len(%s)' % obj
      if meth == 'get':
        return obj
      return '%s.%s(%s)' % (obj, meth, ', '.join(args))
    if k == 'CallExpr':
      callee = n['inner'][0]
      while callee['kind'] == 'ImplicitCastExpr':
        callee = callee['inner'][0]
      name = callee.get('referencedDecl', {}).get('name')
      return '%s(%s)' % (name, ', '.join(self.expr(a) for a in n['inner'][1:]))
    if k in ('ExprWithCleanups', 'MaterializeTemporaryExpr', 'CXXBindTemporaryExpr', 'CXXConstructExpr'):
      if n.get('inner'):
        return self.expr(n['inner'][0])
    raise Unsupported('C++ expression %s' % k)


def lower_function(repo, relpath, qualified, nth=-1):
  """Python source for the C++ function `ns::Class::method` (definition with a body)."""
  docs = clang_ast(repo, relpath, qualified)
  defs = [d for d in docs if any(c.get('kind') == 'CompoundStmt' for c in d.get('inner', []))]
  if not defs:
    raise ContractMisfit('%s: no definition of %s' % (relpath, qualified))
  fn = defs[nth]
  src, names = Lower(fn).run()
  return src, names
