"""Comprehensions, quantifiers and builtin models."""
import ast

import z3

from engine import sorts as S
from engine import values as Vl
from engine.core import Unsupported
from engine.values import V, NONE, PyStr, PyTuple, Obj, ClassRef, FuncRef, Builtin


class Gen:
  """An unevaluated generator expression / comprehension (closure over env)."""

  def __init__(self, node, env):
    self.node = node
    self.env = env


class Domain:
  """One `for tgt in it` clause: bound var, membership condition, element."""

  def __init__(self, var, cond, elem, indexed=False, length=None):
    self.var = var
    self.cond = cond
    self.elem = elem
    self.indexed = indexed  # var is an index 0..length-1 in iteration order
    self.length = length


class CompMixin:

  def ev_GeneratorExp(self, e):
    return Gen(e, dict(self.env))

  def ev_ListComp(self, e):
    return self.comp_list(Gen(e, dict(self.env)))

  def ev_SetComp(self, e):
    return self.comp_set(Gen(e, dict(self.env)))

  def ev_DictComp(self, e):
    return self.comp_dict(Gen(e, dict(self.env)))

  def domain_of(self, it, node):
    if isinstance(it, tuple) and it and it[0] == 'range':
      lo, hi = it[1], it[2]
      k = z3.FreshConst(z3.IntSort(), 'k')
      return Domain(k, z3.And(lo <= k, k < hi), V(S.INT, k),
                    indexed=z3.is_int_value(z3.simplify(lo)) and z3.simplify(lo).as_long() == 0,
                    length=hi)
    if isinstance(it, tuple) and it and it[0] == 'every':
      x = it[1].fresh('q')
      return Domain(x, z3.BoolVal(True), V(it[1], x))
    if isinstance(it, tuple) and it and it[0] == 'enumerate':
      d = self.domain_of(it[1], node)
      if not d.indexed:
        raise Unsupported('enumerate over unordered')
      return Domain(d.var, d.cond, PyTuple([V(S.INT, d.var), d.elem]), True, d.length)
    if isinstance(it, tuple) and it and it[0] == 'zip':
      ds = [self.domain_of(x, node) for x in it[1]]
      k = ds[0].var
      elems = [ds[0].elem]
      conds = [ds[0].cond]
      for d in ds[1:]:
        if not d.indexed:
          raise Unsupported('zip over unordered')
        elems.append(_subst_val(d.elem, d.var, k))
        conds.append(z3.substitute(d.cond, (d.var, k)))
      ln = ds[0].length
      for d in ds[1:]:
        ln = z3.If(d.length < ln, d.length, ln)
      return Domain(k, z3.And(*conds), PyTuple(elems), True, ln)
    if isinstance(it, tuple) and it and it[0] == 'dict_items':
      d = it[1]
      s = d.sort
      x = s.key.fresh('key')
      return Domain(x, s.has(d.t, x), PyTuple([V(s.key, x), V(s.val, s.get(d.t, x))]))
    if isinstance(it, tuple) and it and it[0] == 'dict_values':
      d = it[1]
      s = d.sort
      x = s.key.fresh('key')
      return Domain(x, s.has(d.t, x), V(s.val, s.get(d.t, x)))
    if isinstance(it, V) and it.sort.name in self.theory.as_set:
      it = self.theory.as_set[it.sort.name](self, it)
    if isinstance(it, V):
      s = it.sort
      if isinstance(s, S.Seq):
        k = z3.FreshConst(z3.IntSort(), 'k')
        n = s.len(it.t)
        return Domain(k, z3.And(0 <= k, k < n), V(s.elem, s.at(it.t, k)), True, n)
      if isinstance(s, S.SetOf):
        x = s.elem.fresh('m')
        return Domain(x, z3.Select(it.t, x), V(s.elem, x))
      if isinstance(s, S.DictOf):
        x = s.key.fresh('key')
        return Domain(x, s.has(it.t, x), V(s.key, x))
      mm = self.theory.method_models.get((s.name, '__iter__'))
      if mm:
        return mm(self, it, [], {})
    if isinstance(it, PyTuple):
      if not it.items:
        k = z3.FreshConst(z3.IntSort(), 'k')
        return Domain(k, z3.BoolVal(False), NONE, True, z3.IntVal(0))
      if all(isinstance(i, V) for i in it.items):
        return self.domain_of(self.seq_of(it.items), node)
    raise Unsupported('comprehension over %r' % (it,))

  def open_gen(self, gen):
    """Bind all generator clauses; returns (vars, cond, domains)."""
    node = gen.node
    saved = self.env
    self.env = dict(gen.env)
    vars_, conds, doms = [], [], []
    for g in node.generators:
      it = self.eval(g.iter)
      d = self.domain_of(it, g)
      if isinstance(g.iter, ast.Name) and d.indexed and isinstance(d.elem, V) and isinstance(
          d.elem.sort, (S.Seq, S.SetOf, S.DictOf)):
        d.elem = V(d.elem.sort, d.elem.t, origin=('elem', g.iter.id, d.var))
      vars_.append(d.var)
      conds.append(d.cond)
      doms.append(d)
      self.binders.append(([d.var], d.cond))
      self.assign(g.target, d.elem)
      for c in g.ifs:
        ct = self.truth(self.eval(c))
        conds.append(ct)
        self.binders.append(([], ct))
    return saved, vars_, conds, doms

  def close_gen(self, gen, saved):
    n = 0
    for g in gen.node.generators:
      n += 1 + len(g.ifs)
    for _ in range(n):
      self.binders.pop()
    self.env = saved

  def comp_quant(self, gen, universal):
    node = gen.node
    if len(node.generators) == 1:
      # a sequence literal of known length: expand into a finite conjunction
      g = node.generators[0]
      saved = self.env
      self.env = dict(gen.env)
      try:
        it = self.eval(g.iter)
        items = None
        if isinstance(it, V) and it.lit is not None:
          items = it.lit
        elif isinstance(it, PyTuple):
          items = it.items
        if items is not None:
          outs = []
          for item in items:
            self.assign(g.target, item)
            cs = [self.truth(self.eval(c)) for c in g.ifs]
            body = self.truth(self.eval(node.elt))
            if universal:
              outs.append(z3.Implies(z3.And(*cs), body) if cs else body)
            else:
              outs.append(z3.And(*(cs + [body])))
          if universal:
            return V(S.BOOL, z3.And(*outs) if outs else z3.BoolVal(True))
          return V(S.BOOL, z3.Or(*outs) if outs else z3.BoolVal(False))
      finally:
        self.env = saved
    saved, vars_, conds, _ = self.open_gen(gen)
    try:
      body = self.truth(self.eval(gen.node.elt))
    finally:
      self.close_gen(gen, saved)
    c = z3.And(*conds) if conds else z3.BoolVal(True)
    if universal:
      return V(S.BOOL, z3.ForAll(vars_, z3.Implies(c, body)))
    return V(S.BOOL, z3.Exists(vars_, z3.And(c, body)))

  def comp_list(self, gen):
    node = gen.node
    if len(node.generators) != 1:
      raise Unsupported('nested list comprehension')
    # unordered source (set / dict): fix an arbitrary ghost enumeration first
    g0 = node.generators[0]
    saved_env = self.env
    self.env = dict(gen.env)
    try:
      it0 = self.eval(g0.iter)
    finally:
      self.env = saved_env
    if isinstance(it0, V) and it0.sort.name in self.theory.as_set:
      it0 = self.theory.as_set[it0.sort.name](self, it0)
    unordered = (isinstance(it0, tuple) and it0 and it0[0] in ('dict_items', 'dict_values')) or (
        isinstance(it0, V) and isinstance(it0.sort, (S.SetOf, S.DictOf)))
    if unordered:
      if it0[0] == 'dict_values' if isinstance(it0, tuple) else False:
        raise Unsupported('list from dict.values()')
      seqv = self.iter_to_seq(it0, node)
      tmp = '_enum%d' % id(node)
      env2 = dict(gen.env)
      env2[tmp] = seqv
      g2 = ast.comprehension(target=g0.target, iter=ast.Name(id=tmp, ctx=ast.Load()),
                             ifs=g0.ifs, is_async=0)
      node2 = ast.ListComp(elt=node.elt, generators=[g2])
      ast.copy_location(node2, node)
      ast.fix_missing_locations(node2)
      return self.comp_list(Gen(node2, env2))
    saved, vars_, conds, doms = self.open_gen(gen)
    try:
      d = doms[0]
      elt = self.eval(node.elt)
    finally:
      self.close_gen(gen, saved)
    if not d.indexed:
      raise Unsupported('list from unordered iteration (line %d)' % node.lineno)
    if isinstance(elt, PyTuple) and elt.items and all(isinstance(i, V) for i in elt.items):
      ts = S.Tup(*[i.sort for i in elt.items])
      elt = V(ts, ts.make([i.t for i in elt.items]))
    if not isinstance(elt, V):
      if elt is NONE and z3.is_false(d.cond):
        return PyTuple([])
      raise Unsupported('list comprehension of non-symbolic elements')
    ss = S.Seq(elt.sort)
    if not node.generators[0].ifs:
      # a named array with a pointwise definition (triggered on its selects); a lambda
      # term here defeats E-matching when the list is later searched by index
      arr = z3.FreshConst(z3.ArraySort(z3.IntSort(), elt.sort.z3()), 'comp')
      bvars = [v for vs, _ in self.binders for v in vs]
      if bvars:
        arr = z3.Lambda([d.var], elt.t)   # nested inside another binder: keep it a term
      else:
        pats = [z3.Select(arr, d.var)]
        if isinstance(d.elem, V):
          pats.append(d.elem.t)   # also fire when the source element is mentioned
        self.assume(S.forall_pat([d.var], z3.Select(arr, d.var) == elt.t, pats))
      return V(ss, ss.mk(arr, d.length))
    # filtered: an order-preserving subsequence, axiomatised
    filt = z3.And(*conds[1:])
    r = ss.fresh('filtered')
    n = ss.len(r)
    m = z3.Function(z3.FreshConst(z3.IntSort(), 'fmap').decl().name(), z3.IntSort(), z3.IntSort())
    j = z3.FreshConst(z3.IntSort(), 'j')
    j2 = z3.FreshConst(z3.IntSort(), 'j2')
    k = d.var
    at = lambda kk: z3.substitute(elt.t, (k, kk))
    fl = lambda kk: z3.substitute(filt, (k, kk))
    dc = lambda kk: z3.substitute(d.cond, (k, kk))
    self.assume(n >= 0)
    self.assume(z3.ForAll([j], z3.Implies(z3.And(0 <= j, j < n), z3.And(
        dc(m(j)), fl(m(j)), ss.at(r, j) == at(m(j))))))
    self.assume(z3.ForAll([j, j2], z3.Implies(z3.And(0 <= j, j < j2, j2 < n), m(j) < m(j2))))
    self.assume(z3.ForAll([k], z3.Implies(z3.And(d.cond, filt), z3.Exists([j], z3.And(0 <= j, j < n, m(j) == k)))))
    return V(ss, r)

  def comp_set(self, gen):
    saved, vars_, conds, _ = self.open_gen(gen)
    try:
      elt = self.eval(gen.node.elt)
    finally:
      self.close_gen(gen, saved)
    if not isinstance(elt, V):
      raise Unsupported('set comprehension of non-symbolic elements')
    ss = S.SetOf(elt.sort)
    y = elt.sort.fresh('y')
    return V(ss, z3.Lambda([y], z3.Exists(vars_, z3.And(*(conds + [y == elt.t])))))

  def comp_dict(self, gen):
    node = gen.node
    if len(node.generators) != 1:
      raise Unsupported('nested dict comprehension')
    saved, vars_, conds, doms = self.open_gen(gen)
    try:
      kv = self.eval(node.key)
      vv = self.eval(node.value)
    finally:
      self.close_gen(gen, saved)
    d = doms[0]
    if not (isinstance(kv, V) and isinstance(vv, V)):
      raise Unsupported('dict comprehension of non-symbolic entries')
    ds = S.DictOf(kv.sort, vv.sort)
    y = kv.sort.fresh('y')
    c = z3.And(*conds)
    dom = z3.Lambda([y], z3.Exists(vars_, z3.And(c, y == kv.t)))
    va = z3.FreshConst(z3.ArraySort(kv.sort.z3(), vv.sort.z3()), 'dvals')
    k = d.var
    k2 = z3.FreshConst(k.sort(), 'k2')
    c2 = z3.substitute(c, (k, k2))
    key2 = z3.substitute(kv.t, (k, k2))
    if d.indexed:
      later_same = z3.Exists([k2], z3.And(c2, k2 > k, key2 == kv.t))
      self.assume(z3.ForAll([k], z3.Implies(z3.And(c, z3.Not(later_same)),
                                            z3.Select(va, kv.t) == vv.t)))
    else:
      # unordered source: only determined when keys are distinct per element
      other_same = z3.Exists([k2], z3.And(c2, k2 != k, key2 == kv.t))
      self.assume(z3.ForAll([k], z3.Implies(z3.And(c, z3.Not(other_same)),
                                            z3.Select(va, kv.t) == vv.t)))
    return V(ds, ds.mk(dom, va))

  # -- builtins -------------------------------------------------------------

  def make_builtins(self):
    B = lambda n, f: Builtin(n, f, needs_ex=True)
    b = {}
    b['len'] = B('len', _b_len)
    b['set'] = B('set', _b_set)
    b['sys.maxsize'] = V(S.INT, z3.IntVal(2 ** 63 - 1))
    b['frozenset'] = B('frozenset', _b_set)
    b['tuple'] = B('tuple', _b_tuple)
    b['list'] = B('list', _b_tuple)
    b['dict'] = B('dict', _b_dict)
    b['any'] = B('any', _b_any)
    b['all'] = B('all', _b_all)
    b['isinstance'] = B('isinstance', _b_isinstance)
    b['range'] = B('range', _b_range)
    b['enumerate'] = B('enumerate', lambda ex, a, k, n: ('enumerate', a[0]))
    b['zip'] = B('zip', lambda ex, a, k, n: ('zip', a))
    b['getattr'] = B('getattr', _b_getattr)
    b['dataclasses.replace'] = B('replace', _b_replace)
    b['type'] = B('type', _b_type)
    b['min'] = B('min', _b_min)
    b['max'] = B('max', _b_max)
    b['bool'] = B('bool', lambda ex, a, k, n: V(S.BOOL, ex.truth(a[0])))
    b['True'] = Vl.bval(True)
    b['NotImplemented'] = Vl.Sentinel('NotImplemented')
    b['hash'] = B('hash', _b_hash)
    # C++ front end (engine/cxxfront.py)
    I32 = 2 ** 31
    b['chk_int'] = B('chk_int', lambda ex, a, k, n: _chk(ex, a[0], -I32, I32 - 1, 'int arithmetic stays in range (signed overflow is UB)'))
    b['chk_size'] = B('chk_size', lambda ex, a, k, n: _chk(ex, a[0], 0, 2 ** 64 - 1, 'size_t arithmetic does not wrap'))
    b['to_int'] = B('to_int', lambda ex, a, k, n: _chk(ex, a[0], -I32, I32 - 1, 'value fits in int'))
    b['to_size'] = B('to_size', lambda ex, a, k, n: _chk(ex, a[0], 0, 2 ** 64 - 1, 'int converted to size_t is non-negative'))
    b['cdiv'] = B('cdiv', _b_cdiv)
    b['iand'] = B('iand', _b_iand)
    b['cmod'] = B('cmod', lambda ex, a, k, n: (_chk(ex, a[0], 0, None, 'dividend non-negative'), _chk(ex, a[1], 1, None, 'divisor positive'), V(S.INT, ex.as_int(a[0]) % ex.as_int(a[1])))[2])
    b['bv'] = B('bv', lambda ex, a, k, n: V(S.BV64, z3.BitVecVal(z3.simplify(ex.as_int(a[0])).as_long(), 64)))
    b['bv_of_int'] = B('bv_of_int', _b_bv_of_int)
    b['bvand'] = B('bvand', lambda ex, a, k, n: V(S.BV64, a[0].t & a[1].t))
    b['bvor'] = B('bvor', lambda ex, a, k, n: V(S.BV64, a[0].t | a[1].t))
    b['bvnz'] = B('bvnz', lambda ex, a, k, n: V(S.BOOL, a[0].t != z3.BitVecVal(0, 64)))
    b['bvshl'] = B('bvshl', _b_bvshl)
    b['vresize'] = B('vresize', _b_vresize)
    b['vpush'] = B('vpush', _b_vpush)
    b['allocated'] = B('allocated', _b_allocated)
    b['itertools.chain'] = B('chain', _b_chain)
    b['id'] = B('id', lambda ex, a, k, n: Vl.ival(id(a[0])))
    b['False'] = Vl.bval(False)
    # spec-only
    b['implies'] = B('implies', lambda ex, a, k, n: V(S.BOOL, z3.Implies(ex.truth(a[0]), ex.truth(a[1]))))
    b['iff'] = B('iff', lambda ex, a, k, n: V(S.BOOL, ex.truth(a[0]) == ex.truth(a[1])))
    b['every'] = B('every', lambda ex, a, k, n: ('every', ex.theory.sorts[a[0].s]))
    b['fresh'] = B('fresh', _b_fresh)
    b['same'] = B('same', lambda ex, a, k, n: V(S.BOOL, a[0].t == ex.coerce(a[1], a[0].sort).t))
    b['store'] = B('store', _b_store)
    b['append'] = B('append', _b_append)
    b['const_seq'] = B('const_seq', lambda ex, a, k, n: V(S.Seq(a[0].sort), S.Seq(a[0].sort).mk(z3.K(z3.IntSort(), a[0].t), z3.IntVal(0))))
    b['ite'] = B('ite', lambda ex, a, k, n: ex.ite(ex.truth(a[0]), a[1], a[2]))
    return b


def _subst_val(v, old, new):
  if isinstance(v, V):
    return V(v.sort, z3.substitute(v.t, (old, new)))
  if isinstance(v, PyTuple):
    return PyTuple([_subst_val(i, old, new) for i in v.items])
  return v


def _b_len(ex, a, k, n):
  v = a[0]
  if isinstance(v, PyTuple):
    return Vl.ival(len(v.items))
  if isinstance(v, V):
    s = v.sort
    if isinstance(s, S.Seq):
      return V(S.INT, s.len(v.t))
    if isinstance(s, S.SetOf):
      for f in s.card_facts(v.t):
        ex.assume(f)
      if z3.is_app(v.t) and v.t.decl().name().startswith('elems_'):
        # A-LIB: len(set(q)) == len(q) exactly when q has no duplicates; never more
        q = v.t.arg(0)
        qs = S.Seq(s.elem)
        i, j = z3.Ints('di dj')
        dist = z3.ForAll([i, j], z3.Implies(z3.And(0 <= i, i < j, j < qs.len(q)), qs.at(q, i) != qs.at(q, j)))
        ex.assume(s.card(v.t) <= qs.len(q))
        ex.assume((s.card(v.t) == qs.len(q)) == dist)
      return V(S.INT, s.card(v.t))
    if isinstance(s, S.DictOf):
      ks = S.SetOf(s.key)
      for f in ks.card_facts(s.dom(v.t)):
        ex.assume(f)
      return V(S.INT, ks.card(s.dom(v.t)))
    mm = ex.theory.method_models.get((s.name, '__len__'))
    if mm:
      return mm(ex, v, [], {})
  raise Unsupported('len(%r)' % (v,))


def _b_set(ex, a, k, n):
  if not a:
    return PyTuple([])
  v = a[0]
  if isinstance(v, Gen):
    return ex.comp_set(v)
  mm = isinstance(v, V) and ex.theory.method_models.get((v.sort.name, '__frozenset__'))
  if mm:
    return mm(ex, v, [], {})
  return ex.to_set(v)


def _b_tuple(ex, a, k, n):
  if not a:
    return PyTuple([])
  v = a[0]
  if isinstance(v, Gen):
    return ex.comp_list(v)
  if isinstance(v, PyTuple):
    return v
  if isinstance(v, V) and isinstance(v.sort, S.Seq):
    return V(v.sort, v.t)
  if isinstance(v, V) and isinstance(v.sort, (S.SetOf, S.DictOf)):
    return ex.iter_to_seq(v, n)
  raise Unsupported('tuple(%r)' % (v,))


def _b_chain(ex, a, k, n):
  """itertools.chain(*iterables) consumed by a for loop: the concatenated sequence."""
  seqs = []
  for v in a:
    if isinstance(v, Gen):
      v = ex.comp_list(v)
    elif not (isinstance(v, V) and isinstance(v.sort, S.Seq)):
      v = ex.iter_to_seq(v, n)
    seqs.append(v)
  r = seqs[0]
  for v in seqs[1:]:
    if isinstance(v, PyTuple):
      v = ex.coerce(v, r.sort)
    if isinstance(r, PyTuple):
      r = ex.coerce(r, v.sort)
    r = V(r.sort, r.sort.concat(r.t, v.t))
  return r


def _b_dict(ex, a, k, n):
  if not a:
    return PyTuple([])
  v = a[0]
  if isinstance(v, tuple) and v and v[0] == 'zip' and len(v[1]) == 2:
    # dict(zip(keys, values)): later pairs win
    ks, vs = v[1]
    if isinstance(ks, PyTuple):
      raise Unsupported('dict(zip()) of python tuple')
    ksrt, vsrt = ks.sort, vs.sort
    ds = S.DictOf(ksrt.elem, vsrt.elem)
    i, j = z3.FreshConst(z3.IntSort(), 'i'), z3.FreshConst(z3.IntSort(), 'j')
    m = z3.If(ksrt.len(ks.t) < vsrt.len(vs.t), ksrt.len(ks.t), vsrt.len(vs.t))
    y = ksrt.elem.fresh('y')
    dom = z3.Lambda([y], z3.Exists([i], z3.And(0 <= i, i < m, ksrt.at(ks.t, i) == y)))
    va = z3.FreshConst(z3.ArraySort(ksrt.elem.z3(), vsrt.elem.z3()), 'zvals')
    later = z3.Exists([j], z3.And(i < j, j < m, ksrt.at(ks.t, j) == ksrt.at(ks.t, i)))
    ex.assume(z3.ForAll([i], z3.Implies(z3.And(0 <= i, i < m, z3.Not(later)),
                                        z3.Select(va, ksrt.at(ks.t, i)) == vsrt.at(vs.t, i))))
    return V(ds, ds.mk(dom, va))
  if isinstance(v, V) and isinstance(v.sort, S.DictOf):
    return V(v.sort, v.t)
  if isinstance(v, Gen):
    raise Unsupported('dict(generator)')
  raise Unsupported('dict(%r)' % (v,))


def _b_any(ex, a, k, n):
  v = a[0]
  if isinstance(v, Gen):
    return ex.comp_quant(v, False)
  d = ex.domain_of(v, n)
  return V(S.BOOL, z3.Exists([d.var], z3.And(d.cond, ex.truth(d.elem))))


def _b_all(ex, a, k, n):
  v = a[0]
  if isinstance(v, Gen):
    return ex.comp_quant(v, True)
  d = ex.domain_of(v, n)
  return V(S.BOOL, z3.ForAll([d.var], z3.Implies(d.cond, ex.truth(d.elem))))


def _b_isinstance(ex, a, k, n):
  v, c = a
  cs = c.items if isinstance(c, PyTuple) else [c]
  outs = []
  for cr in cs:
    if not isinstance(cr, ClassRef):
      raise Unsupported('isinstance against %r' % (cr,))
    outs.append(ex.isinstance_one(v, cr))
  return V(S.BOOL, z3.Or(*outs) if len(outs) > 1 else outs[0])


def _b_range(ex, a, k, n):
  if len(a) == 1:
    return ('range', z3.IntVal(0), ex.as_int(a[0]))
  if len(a) == 2:
    return ('range', ex.as_int(a[0]), ex.as_int(a[1]))
  raise Unsupported('range with step')


def _b_getattr(ex, a, k, n):
  obj, name = a[0], a[1]
  if not isinstance(name, PyStr):
    raise Unsupported('getattr with symbolic name')
  if isinstance(obj, V):
    am = ex.theory.attr_models.get((obj.sort.name, name.s))
    if am:
      return am(ex, obj)
  if len(a) == 3 and isinstance(obj, V):
    am = ex.theory.attr_models.get((obj.sort.name, 'getattr:' + name.s))
    if am:
      return am(ex, obj, a[2])
  return ex.getattr(obj, name.s, n)


def _b_replace(ex, a, k, n):
  v = a[0]
  if isinstance(v, V) and isinstance(v.sort, S.Rec):
    s = v.sort
    ts = []
    for f, fs in s.fields:
      if f in k:
        ts.append(ex.coerce(k[f], fs).t)
      else:
        ts.append(s.field(f, v.t))
    bad = set(k) - {f for f, _ in s.fields}
    if bad:
      raise Unsupported('replace: unknown fields %s' % bad)
    return V(s, s.make(ts))
  raise Unsupported('dataclasses.replace on %r' % (v,))


def _b_type(ex, a, k, n):
  v = a[0]
  if isinstance(v, Obj):
    return ClassRef(v.module, v.clsname)
  raise Unsupported('type(%r)' % (v,))


def _some_element(ex, gen, what):
  """min()/max() over a generator: modelled as SOME element of it (which one is left
  unspecified: a sound over-approximation), with the obligation that it is non-empty."""
  saved, vars_, conds, _ = ex.open_gen(gen)
  try:
    elem = ex.eval(gen.node.elt)
  finally:
    ex.close_gen(gen, saved)
  cond = z3.And(*conds) if conds else z3.BoolVal(True)
  ex.oblige(z3.Exists(vars_, cond), 'safety', '%s() of a non-empty iterable' % what)
  for v in vars_:
    sk = z3.FreshConst(v.sort(), what)
    cond = z3.substitute(cond, (v, sk))
    elem = _subst_val(elem, v, sk)
  ex.assume(cond)
  return elem


def _b_min(ex, a, k, n):
  if len(a) == 1 and isinstance(a[0], Gen):
    return _some_element(ex, a[0], 'min')
  if len(a) == 2:
    x, y = ex.as_int(a[0]), ex.as_int(a[1])
    return V(S.INT, z3.If(x <= y, x, y))
  raise Unsupported('min arity')


def _b_max(ex, a, k, n):
  if len(a) == 2:
    x, y = ex.as_int(a[0]), ex.as_int(a[1])
    return V(S.INT, z3.If(x >= y, x, y))
  raise Unsupported('max arity')


def _b_fresh(ex, a, k, n):
  """The container was created by this call (not shared with another object/argument)."""
  v = a[0]
  if not isinstance(v, V):
    return Vl.bval(True)
  org = v.origin
  if org is not None and org[0] == 'field':
    org = org[3]
  return Vl.bval(org is None)


_HASH_FNS = {}


def _b_hash(ex, a, k, n):
  """hash(x): an uninterpreted function of the *value* (A-LIB: equal values hash equally).

  For sets the SMT value is extensional, so equal sets hash equally; for tuples it
  is a function of the sequence of elements.
  """
  v = a[0]
  if isinstance(v, PyTuple):
    v = ex.seq_of([ex.coerce(i, S.STR) if isinstance(i, PyStr) else i for i in v.items])
  if isinstance(v, PyStr):
    v = ex.coerce(v, S.STR)
  if not isinstance(v, V):
    raise Unsupported('hash(%r)' % (v,))
  s = v.sort
  mm = ex.theory.method_models.get((s.name, '__hash__'))
  if mm:
    return mm(ex, v, [], {})
  if s.name not in _HASH_FNS:
    _HASH_FNS[s.name] = z3.Function('hash_' + S._mangle(s.name), s.z3(), z3.IntSort())
  if isinstance(s, S.Seq):
    # canonical: depends on len and the elements below len only
    h = _HASH_FNS[s.name]
    o = s.fresh('o')
    key = ('seqax', s.name)
    if key not in _HASH_FNS:
      _HASH_FNS[key] = True
      p = s.fresh('p')
      ex.theory.axioms.append(z3.ForAll([o, p], z3.Implies(s.eq(o, p), h(o) == h(p))))
  return V(S.INT, _HASH_FNS[s.name](v.t))


def _b_store(ex, a, k, n):
  """Ghost update of a sequence used as an unbounded map Int -> T (length is not meaningful)."""
  q, i, v = a
  s = q.sort
  return V(s, s.mk(z3.Store(s.arr(q.t), ex.as_int(i), ex.coerce(v, s.elem).t), s.len(q.t)))


def _b_append(ex, a, k, n):
  """Spec-level q + [v] (array store; frame fact triggered on the old list's elements)."""
  q, v = a
  s = q.sort
  ln = s.len(q.t)
  newarr = z3.Store(s.arr(q.t), ln, ex.coerce(v, s.elem).t)
  p_ = z3.FreshConst(z3.IntSort(), 'p')
  ex.assume(z3.ForAll([p_], z3.Implies(z3.And(0 <= p_, p_ < ln), z3.Select(newarr, p_) == z3.Select(s.arr(q.t), p_)),
                      patterns=[z3.Select(s.arr(q.t), p_)]))
  return V(s, s.mk(newarr, ln + 1))


def _chk(ex, v, lo, hi, what):
  t = ex.as_int(v)
  conds = []
  if lo is not None:
    conds.append(t >= lo)
  if hi is not None:
    conds.append(t <= hi)
  ex.oblige(z3.And(*conds), 'safety', what)
  return V(S.INT, t)


def _b_cdiv(ex, a, k, n):
  x, y = ex.as_int(a[0]), ex.as_int(a[1])
  ex.oblige(z3.And(x >= 0, y > 0), 'safety', 'C++ `/` modelled for non-negative dividend and positive divisor')
  return V(S.INT, x / y)


def _b_iand(ex, a, k, n):
  x, m = ex.as_int(a[0]), z3.simplify(ex.as_int(a[1]))
  if not z3.is_int_value(m) or (m.as_long() + 1) & m.as_long():
    raise Unsupported('int & with a mask that is not 2^k-1')
  ex.oblige(x >= 0, 'safety', 'C++ `& %d` modelled as mod for a non-negative operand' % m.as_long())
  return V(S.INT, x % (m.as_long() + 1))


def _b_bv_of_int(ex, a, k, n):
  t = z3.simplify(ex.as_int(a[0]))
  if z3.is_int_value(t):
    return V(S.BV64, z3.BitVecVal(t.as_long(), 64))
  return V(S.BV64, z3.Int2BV(t, 64))


def _b_bvshl(ex, a, k, n):
  """a << k.  Only `1 << k` is modelled: the table function pow2_64 (A-SHIFT)."""
  lhs = z3.simplify(a[0].t)
  if not (z3.is_bv_value(lhs) and lhs.as_long() == 1):
    raise Unsupported('left shift of a value other than the constant 1')
  kk = ex.as_int(a[1])
  ex.oblige(z3.And(0 <= kk, kk < 64), 'safety', 'shift amount within the word')
  return V(S.BV64, S.POW2(kk))


def _b_allocated(ex, a, k, n):
  """spec function: the heap object has been created (by a constructor call seen so far or before the function was entered)."""
  v = a[0]
  hb = ex.heap_binding(v.sort)
  if hb is None:
    raise Unsupported('allocated(%r): not a heap reference' % (v,))
  (rp, cn), b = hb
  al = ex.env['$H.%s.$alloc' % cn]
  return V(S.BOOL, z3.Select(al.t, v.t))


def _b_vpush(ex, a, k, n):
  """std::vector::push_back(x): the old elements followed by x (A-STL)."""
  v = a[0]
  s = v.sort
  x = ex.coerce(a[1], s.elem)
  ln = s.len(v.t)
  return V(s, s.mk(z3.Store(s.arr(v.t), ln, x.t), ln + 1))


def _b_vresize(ex, a, k, n):
  """std::vector::resize(n[, fill]) (library contract assumed: A-STL)."""
  v = a[0]
  s = v.sort
  newlen = ex.as_int(a[1])
  if len(a) > 2:
    fill = ex.coerce(a[2], s.elem).t
  elif isinstance(s.elem, S.Seq):
    fill = s.elem.mk(z3.K(z3.IntSort(), s.elem.elem.fresh('dflt') if not s.elem.elem is S.BV64 else z3.BitVecVal(0, 64)), z3.IntVal(0))
  else:
    raise Unsupported('resize without fill on %s' % s)
  old = s.len(v.t)
  arr = z3.FreshConst(z3.ArraySort(z3.IntSort(), s.elem.z3()), 'resized')
  p = z3.FreshConst(z3.IntSort(), 'p')
  ex.assume(z3.ForAll([p], z3.Implies(z3.And(0 <= p, p < old), z3.Select(arr, p) == s.at(v.t, p)),
                      patterns=[z3.Select(arr, p)]))
  ex.assume(z3.ForAll([p], z3.Implies(p >= old, z3.Select(arr, p) == fill), patterns=[z3.Select(arr, p)]))
  return V(s, s.mk(arr, newlen))
