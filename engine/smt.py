"""Discharging obligations.

Every solver call runs in its own forked child (one per obligation), so that
  * a verdict does not depend on what the solver was asked before (z3's answer on quantified VCs
    depends on its internal state: observed `unknown` in a long sequence, `unsat` when asked alone),
  * the budget is z3's deterministic resource counter (`rlimit`), not wall-clock time: the same tree
    gives the same verdicts whether the machine is idle or all 16 cores are busy,
  * a solver call that ignores its limits (observed once: an in-process check that ran for an hour
    and grew to 7 GB under load) is killed by the parent at a generous wall-clock backstop and is
    reported as `killed` (= undecided, exit 2), never as a violation.

Phase 1: z3 (python bindings) in the child, small portfolio of options, R1 resource units each.
Phase 2: what is left goes to the z3 CLI (rlimit R2) and cvc5 (wall-clock limit: cvc5 only ever
rescues an `unknown`, it is never needed for a refutation).
"""
import os
import pickle
import select
import signal
import struct
import subprocess
import tempfile
import time

import z3

_OBLS = []

# ~4.5e6 resource units per second of z3 work on the quantified VCs generated here (measured).
R_QUICK = 1_500_000       # path-feasibility checks during symbolic execution (~0.3 s)
R1 = 50_000_000           # per portfolio attempt in phase 1 (~10 s of z3 work when the machine is idle)
R2_PER_S = 5_000_000      # phase 2: timeout_s * R2_PER_S


def jobs_default():
  """Worker processes for one discharge call: the CPUs we may use, fewer when the machine is already busy or short of
  memory (several checks running side by side): verdicts do not depend on this number, only the elapsed time does."""
  try:
    n = max(2, min(16, len(os.sched_getaffinity(0))))
  except AttributeError:
    n = 8
  try:
    load = os.getloadavg()[0]
    if load > n:
      n = max(2, int(n * n / load))
  except OSError:
    pass
  try:
    with open('/proc/meminfo') as f:
      for line in f:
        if line.startswith('MemAvailable:'):
          avail_gb = int(line.split()[1]) / 1e6
          n = max(1, min(n, int(avail_gb / 2)))     # ~2 GB per solver process, worst case
  except OSError:
    pass
  return n


MEM_MB = 6000     # per solver process: beyond this z3 answers `unknown` (max. memory exceeded); hard address-space cap at 2x


def _limit_memory():
  """A solver call that blows up in memory (observed: 34 GB in one quantifier-instantiation loop that ignores rlimit) must
  not take the machine down: z3's own soft limit first, the address-space limit as the backstop."""
  try:
    z3.set_param('memory_max_size', MEM_MB)
  except Exception:  # pylint: disable=broad-except
    pass
  try:
    import resource
    resource.setrlimit(resource.RLIMIT_AS, (2 * MEM_MB * 1024 * 1024, 2 * MEM_MB * 1024 * 1024))
  except Exception:  # pylint: disable=broad-except
    pass


def _read_exact(fd, n):
  buf = b''
  while len(buf) < n:
    chunk = os.read(fd, n - len(buf))
    if not chunk:
      return None
    buf += chunk
  return buf


class _Worker:
  """A forked child that evaluates work(i) for the indices it is sent, one at a time."""

  def __init__(self, work):
    cr, cw = os.pipe()
    rr, rw = os.pipe()
    pid = os.fork()
    if pid == 0:
      try:
        os.close(cw)
        os.close(rr)
        signal.signal(signal.SIGINT, signal.SIG_DFL)
        _limit_memory()
        while True:
          hdr = _read_exact(cr, 8)
          if hdr is None:
            break
          i = struct.unpack('q', hdr)[0]
          if i < 0:
            break
          try:
            out = pickle.dumps(work(i))
          except BaseException as e:  # pylint: disable=broad-except
            out = pickle.dumps(('error', '%s: %s' % (type(e).__name__, e)))
          os.write(rw, struct.pack('q', len(out)))
          off = 0
          while off < len(out):
            off += os.write(rw, out[off:off + 65536])
      finally:
        os._exit(0)
    os.close(cr)
    os.close(rw)
    self.pid, self.cw, self.rr = pid, cw, rr
    self.task, self.t0 = None, 0.0

  def send(self, i):
    self.task, self.t0 = i, time.time()
    os.write(self.cw, struct.pack('q', i))

  def recv(self):
    hdr = _read_exact(self.rr, 8)
    if hdr is None:
      return None
    data = _read_exact(self.rr, struct.unpack('q', hdr)[0])
    return None if data is None else pickle.loads(data)

  def close(self, kill=False):
    try:
      if kill:
        os.kill(self.pid, signal.SIGKILL)
      else:
        os.write(self.cw, struct.pack('q', -1))
    except OSError:
      pass
    for fd in (self.cw, self.rr):
      try:
        os.close(fd)
      except OSError:
        pass
    try:
      os.waitpid(self.pid, 0)
    except ChildProcessError:
      pass


def fork_map(n, work, jobs=None, hard_s=600):
  """work(i) for i in range(n) in forked worker processes (at most `jobs`).

  A worker that does not answer within `hard_s` seconds of wall-clock time is killed and replaced;
  the entry of that task is ('killed', seconds) -- likewise when a worker dies without an answer.
  """
  jobs = min(jobs or jobs_default(), max(1, n))
  results = [None] * n
  workers = []
  nxt = 0
  done = 0
  try:
    while done < n:
      idle = [w for w in workers if w.task is None]
      while nxt < n and (idle or len(workers) < jobs):
        w = idle.pop() if idle else _Worker(work)
        if w not in workers:
          workers.append(w)
        w.send(nxt)
        nxt += 1
      busy = [w for w in workers if w.task is not None]
      ready, _, _ = select.select([w.rr for w in busy], [], [], 0.25)
      now = time.time()
      for w in busy:
        if w.rr in ready:
          res = w.recv()
          i = w.task
          w.task = None
          done += 1
          if res is None:           # died without an answer
            results[i] = ('killed', now - w.t0)
            w.close(kill=True)
            workers.remove(w)
          else:
            results[i] = res
        elif now - w.t0 > hard_s:
          results[w.task] = ('killed', now - w.t0)
          done += 1
          w.close(kill=True)
          workers.remove(w)
  finally:
    for w in workers:
      w.close(kill=w.task is not None)
  return results


def _rl(s):
  try:
    st = s.statistics()
    for k in st.keys():
      if k == 'rlimit count':
        return st.get_key_value(k)
  except Exception:  # pylint: disable=broad-except
    pass
  return 0


def _solve(idx, rlimit, seed, single):
  o = _OBLS[idx]
  t0 = time.time()
  r = z3.unknown
  used = 0
  # small portfolio: default (MBQI + E-matching), then E-matching only, then other seeds;
  # any `unsat` is a proof; `sat` is only believed from a configuration with MBQI on.
  attempts = ({}, {'smt.mbqi': False}, {'smt.random_seed': 1 + seed}, {'smt.mbqi': False, 'smt.random_seed': 2 + seed},
              {'smt.random_seed': 3 + seed, 'smt.qi.eager_threshold': 100.0})
  # a fresh z3 context per obligation: the verdict depends on this formula only, not on what the
  # worker solved before (term numbering and learned state are per context)
  ctx = z3.Context()
  fs = [f.translate(ctx) for f in o.formula()]
  s = z3.Solver(ctx=ctx)
  s.check()
  before = _rl(s)     # the counter is global to the context: measure differences
  for opts in (attempts[:1] if single else attempts):
    s = z3.Solver(ctx=ctx)
    s.set('rlimit', rlimit)
    for k, v in opts.items():
      s.set(k, v)
    s.add(*fs)
    try:
      r = s.check()
    except z3.Z3Exception as e:  # pylint: disable=broad-except
      return 'unknown', time.time() - t0, 'z3 exception: %s' % e, None, used
    after = _rl(s)
    used, before = after - before, after    # units used by the last (= deciding) attempt
    if r == z3.unsat or (r == z3.sat and 'smt.mbqi' not in opts):
      break
    if r == z3.sat:
      r = z3.unknown   # a model found with MBQI off is not trusted
  dt = time.time() - t0
  if r == z3.unsat:
    return 'proved', dt, '', None, used
  if r == z3.sat:
    try:
      m = str(s.model())
    except Exception:  # pylint: disable=broad-except
      m = '<no model>'
    return 'sat', dt, m, None, used
  smt2 = None
  try:
    smt2 = s.to_smt2()
  except Exception:  # pylint: disable=broad-except
    pass
  return 'unknown', dt, s.reason_unknown(), smt2, used


def _cvc5(smt2, timeout_s):
  if smt2 is None or '(lambda' in smt2:
    return 'unknown', 'not expressible for cvc5'
  with tempfile.NamedTemporaryFile('w', suffix='.smt2', delete=False) as f:
    f.write('(set-logic ALL)\n' + smt2)
    path = f.name
  try:
    p = subprocess.run(['/usr/bin/cvc5', '--tlimit=%d' % (timeout_s * 1000), path],
                       capture_output=True, text=True, timeout=timeout_s + 5)
    out = p.stdout.strip().splitlines()
    r = out[0] if out else ''
    if r == 'unsat':
      return 'proved', ''
    if r == 'sat':
      return 'sat', 'cvc5 sat'
    return 'unknown', (p.stderr or p.stdout)[:200]
  except subprocess.TimeoutExpired:
    return 'unknown', 'cvc5 timeout'
  finally:
    os.unlink(path)


def _z3cli(smt2, timeout_s):
  if smt2 is None:
    return 'unknown', 'no smt2'
  with tempfile.NamedTemporaryFile('w', suffix='.smt2', delete=False) as f:
    f.write(smt2)
    path = f.name
  try:
    # deterministic budget; the wall-clock limit is only a backstop (20x the nominal time)
    p = subprocess.run(['z3-new', 'rlimit=%d' % (timeout_s * R2_PER_S), '-T:%d' % (timeout_s * 20), path],
                       capture_output=True, text=True, timeout=timeout_s * 20 + 30)
    out = p.stdout.strip().splitlines()
    r = out[0] if out else ''
    if r == 'unsat':
      return 'proved', ''
    if r == 'sat':
      return 'sat', 'z3 cli sat'
    return 'unknown', (p.stdout + p.stderr)[:200]
  except subprocess.TimeoutExpired:
    return 'unknown', 'killed: z3 cli wall-clock backstop'
  finally:
    os.unlink(path)


def _second(args):
  smt2, timeout_s, use_cvc5 = args
  t0 = time.time()
  from concurrent.futures import ThreadPoolExecutor
  with ThreadPoolExecutor(2) as tp:
    fz = tp.submit(_z3cli, smt2, timeout_s)
    fc = tp.submit(_cvc5, smt2, timeout_s) if use_cvc5 else None
    st, info = fz.result()
    backend = 'z3-cli-5.1.0'
    if fc is not None:
      st2, info2 = fc.result()
      if st == 'unknown' and st2 != 'unknown':
        st, info, backend = st2, info2, 'cvc5-1.0.3'
      elif st != 'unknown' and st2 != 'unknown' and st != st2:
        raise RuntimeError('solver disagreement: z3 %s vs cvc5 %s' % (st, st2))
  return st, info, backend, time.time() - t0


def quick_sat(assumptions, extra, rlimit=R_QUICK, hard_s=900):
  """Path-feasibility query in a forked child: z3.sat / z3.unsat / z3.unknown.

  The answer decides which paths are explored (and with that the obligation names), so it must not depend on machine
  load: the budget is the deterministic resource counter, and a child that dies without an answer (killed by the
  system under memory pressure, or at the generous wall-clock backstop) is retried."""
  def work(_):
    s = z3.Solver()
    s.set('rlimit', rlimit)
    s.add(*assumptions)
    s.add(extra)
    return str(s.check())
  for _attempt in range(3):
    res = fork_map(1, work, jobs=1, hard_s=hard_s)[0]
    if res in ('sat', 'unsat', 'unknown'):
      break
    time.sleep(1.0)
  return {'sat': z3.sat, 'unsat': z3.unsat}.get(res, z3.unknown)


def discharge(obligations, timeout_s=60, jobs=None, seed=0, use_cvc5=True,
              first_ms=None, phase2=True, single=False, rlimit=None):
  """Sets .status/.backend/.seconds/.model/.rlimit on each obligation."""
  global _OBLS
  _OBLS = obligations
  t0 = time.time()
  jobs = jobs or jobs_default()
  if rlimit is None:
    rlimit = R1 if first_ms is None else max(200_000, int(first_ms * 4500))
  pending = []
  results = fork_map(len(obligations), lambda i: _solve(i, rlimit, seed, single), jobs=jobs,
                     hard_s=900)
  for o, res in zip(obligations, results):
    o.backend = 'z3-%s' % z3.get_version_string()
    o.model, o.reason, o.rlimit = None, '', 0
    if res is None or res[0] in ('killed', 'error'):
      o.status, o.seconds = 'unknown', (res[1] if res and res[0] == 'killed' else 0.0)
      o.reason = 'killed: solver process hit the wall-clock backstop' if (res is None or res[0] == 'killed') else 'solver process error: %s' % res[1]
      o.killed = True
      continue
    status, dt, info, smt2, used = res
    o.status, o.seconds, o.rlimit = status, dt, used
    o.model = info if status == 'sat' else None
    o.reason = info if status == 'unknown' else ''
    if status == 'unknown':
      pending.append((o, smt2))
  if pending and phase2:
    from multiprocessing.pool import ThreadPool
    with ThreadPool(min(jobs, len(pending))) as pool:
      res = pool.map(_second, [(s2, timeout_s, use_cvc5) for _, s2 in pending])
    for (o, _), (st, info, backend, dt) in zip(pending, res):
      o.seconds += dt
      if st != 'unknown':
        o.status, o.backend = st, backend
        o.model = info if st == 'sat' else None
      else:
        o.reason = info
        if 'killed' in info:
          o.killed = True
  return time.time() - t0
