"""Discharging obligations: z3 in forked workers, cvc5 CLI for z3's unknowns."""
import multiprocessing
import os
import subprocess
import tempfile
import time

import z3

_OBLS = []


def _solve(args):
  idx, timeout_ms, seed = args[:3]
  single = len(args) > 3 and args[3]
  o = _OBLS[idx]
  t0 = time.time()
  r = z3.unknown
  # small portfolio: default (MBQI + E-matching), then E-matching only
  # z3's verdict on quantified VCs depends on internal state (observed: `unknown` in a long
  # sequence, `unsat` in 10 ms when the same VC is asked again), so several short attempts
  # with different options/seeds are made; any `unsat` is a proof.
  attempts = ({}, {'smt.mbqi': False}, {'smt.random_seed': 1 + seed}, {'smt.mbqi': False, 'smt.random_seed': 2 + seed},
              {'smt.random_seed': 3 + seed, 'smt.qi.eager_threshold': 100.0})
  for opts in (attempts[:1] if single else attempts):
    s = z3.Solver()
    s.set('timeout', timeout_ms)
    for k, v in opts.items():
      s.set(k, v)
    s.add(*o.formula())
    try:
      r = s.check()
    except z3.Z3Exception as e:  # pylint: disable=broad-except
      return idx, 'unknown', time.time() - t0, 'z3 exception: %s' % e, None
    if r == z3.unsat or (r == z3.sat and 'smt.mbqi' not in opts):
      break
    if r == z3.sat:
      r = z3.unknown   # a model found with MBQI off is not trusted
  dt = time.time() - t0
  if r == z3.unsat:
    return idx, 'proved', dt, '', None
  if r == z3.sat:
    try:
      m = str(s.model())
    except Exception:  # pylint: disable=broad-except
      m = '<no model>'
    return idx, 'sat', dt, m, None
  smt2 = None
  try:
    smt2 = s.to_smt2()
  except Exception:  # pylint: disable=broad-except
    pass
  return idx, 'unknown', dt, s.reason_unknown(), smt2


def _cvc5(smt2, timeout_s):
  if smt2 is None or '(lambda' in smt2:
    return 'unknown', 'not expressible for cvc5'
  with tempfile.NamedTemporaryFile('w', suffix='.smt2', delete=False) as f:
    f.write('(set-logic ALL)\n' + smt2)
    path = f.name
  try:
    p = subprocess.run(['/usr/bin/cvc5', '--tlimit=%d' % (timeout_s * 1000), path],
                       capture_output=True, text=True, timeout=timeout_s + 5)
    out = p.stdout.strip().splitlines()
    r = out[0] if out else ''
    if r == 'unsat':
      return 'proved', ''
    if r == 'sat':
      return 'sat', 'cvc5 sat'
    return 'unknown', (p.stderr or p.stdout)[:200]
  except subprocess.TimeoutExpired:
    return 'unknown', 'cvc5 timeout'
  finally:
    os.unlink(path)


def _z3cli(smt2, timeout_s):
  if smt2 is None:
    return 'unknown', 'no smt2'
  with tempfile.NamedTemporaryFile('w', suffix='.smt2', delete=False) as f:
    f.write(smt2)
    path = f.name
  try:
    p = subprocess.run(['z3-new', '-T:%d' % timeout_s, path],
                       capture_output=True, text=True, timeout=timeout_s + 10)
    out = p.stdout.strip().splitlines()
    r = out[0] if out else ''
    if r == 'unsat':
      return 'proved', ''
    if r == 'sat':
      return 'sat', 'z3 cli sat'
    return 'unknown', (p.stdout + p.stderr)[:200]
  except subprocess.TimeoutExpired:
    return 'unknown', 'z3 cli timeout'
  finally:
    os.unlink(path)


def _second(args):
  smt2, timeout_s, use_cvc5 = args
  t0 = time.time()
  from concurrent.futures import ThreadPoolExecutor
  with ThreadPoolExecutor(2) as tp:
    fz = tp.submit(_z3cli, smt2, timeout_s)
    fc = tp.submit(_cvc5, smt2, timeout_s) if use_cvc5 else None
    st, info = fz.result()
    backend = 'z3-cli-5.1.0'
    if fc is not None:
      st2, info2 = fc.result()
      if st == 'unknown' and st2 != 'unknown':
        st, info, backend = st2, info2, 'cvc5-1.0.3'
      elif st != 'unknown' and st2 != 'unknown' and st != st2:
        raise RuntimeError('solver disagreement: z3 %s vs cvc5 %s' % (st, st2))
  return st, info, backend, time.time() - t0


def discharge(obligations, timeout_s=60, jobs=16, seed=0, use_cvc5=True,
              first_ms=2000, phase2=True, single=False):
  """Sets .status/.backend/.seconds/.model on each obligation.

  Phase 1: in-process z3, sequential, short budget (VCs normally take ms).
  Phase 2: what is left goes to z3/cvc5 CLI processes in parallel, full budget.
  """
  global _OBLS
  _OBLS = obligations
  t0 = time.time()
  pending = []
  results = None
  if len(obligations) >= 24 and jobs > 1 and os.environ.get('VERIF_SERIAL') != '1':
    # phase 1 in forked workers (the obligations are inherited through fork; only strings come back)
    try:
      ctx = multiprocessing.get_context('fork')
      with ctx.Pool(min(jobs, 12)) as pool:
        results = pool.map(_solve, [(i, first_ms, seed, single) for i in range(len(obligations))], chunksize=4)
    except Exception:  # pylint: disable=broad-except
      results = None
  for i in range(len(obligations)):
    idx, status, dt, info, smt2 = results[i] if results is not None else _solve((i, first_ms, seed, single))
    o = obligations[i]
    o.status, o.seconds, o.backend = status, dt, 'z3-%s' % z3.get_version_string()
    o.model = info if status == 'sat' else None
    o.reason = info if status == 'unknown' else ''
    if status == 'unknown':
      pending.append((i, smt2))
  if pending and phase2:
    from multiprocessing.pool import ThreadPool
    with ThreadPool(min(jobs, len(pending))) as pool:
      res = pool.map(_second, [(s2, timeout_s, use_cvc5) for _, s2 in pending])
    for (i, _), (st, info, backend, dt) in zip(pending, res):
      o = obligations[i]
      o.seconds += dt
      if st != 'unknown':
        o.status, o.backend = st, backend
        o.model = info if st == 'sat' else None
      else:
        o.reason = info
  return time.time() - t0
