"""Sort descriptors: how Python values are lowered to SMT (DESIGN.md section 2.3).

Every sort has a z3 sort so that sorts nest (a Seq of records of Seqs ...).
Python `==` is `Sort.eq`, which is *not* z3 `=` for sorts that contain sequences
(two Python-equal lists may differ beyond their length in the array encoding).
Sorts usable as set elements / dict keys must be "flat" (eq is z3 `=`).
"""
import z3


_CONCATS = {}  # term id of a concatenation -> (a, b)
_PENDING_FACTS = []  # definitional facts of freshly named arrays, drained by the executor


def forall_pat(vs, body, pats):
  """ForAll with each usable candidate pattern as an alternative trigger."""
  good = []
  for pt in pats:
    if not _is_select(pt) or _has_ite(pt):
      continue
    try:
      z3.ForAll(vs, body, patterns=[pt])
      good.append(pt)
    except z3.Z3Exception:
      pass
  if good:
    return z3.ForAll(vs, body, patterns=good)
  return z3.ForAll(vs, body)


def _has_ite(t):
  if z3.is_app(t):
    if t.decl().kind() == z3.Z3_OP_ITE:
      return True
    return any(_has_ite(c) for c in t.children())
  return z3.is_quantifier(t)


def _is_select(t):
  return z3.is_app(t) and t.decl().kind() == z3.Z3_OP_SELECT


_SLICES = {}
_EXACT_SLICES = {}   # slices whose bounds are known to be in range: id -> (base, lo, hi)   # term id of a slice -> (base term, lo, hi) with clamped bounds
_KEEP = []     # keeps the slice terms alive so that ids stay unique


def select(arr, i):
  """arr[i] with eager beta-reduction when arr is a lambda term."""
  if z3.is_quantifier(arr) and arr.is_lambda() and arr.num_vars() == 1:
    return z3.substitute_vars(arr.body(), i)
  return z3.Select(arr, i)


class Sort:
  name = '?'
  flat = True  # Python == coincides with z3 =

  def z3(self):
    raise NotImplementedError

  def eq(self, a, b):
    return a == b

  def fresh(self, name):
    return z3.FreshConst(self.z3(), name)

  def __repr__(self):
    return self.name


class _Int(Sort):
  name = 'Int'

  def z3(self):
    return z3.IntSort()


class _Bool(Sort):
  name = 'Bool'

  def z3(self):
    return z3.BoolSort()


class _BV64(Sort):
  name = 'BV64'

  def z3(self):
    return z3.BitVecSort(64)


INT = _Int()
BOOL = _Bool()
BV64 = _BV64()
POW2 = z3.Function('pow2_64', z3.IntSort(), z3.BitVecSort(64))


def pow2_facts():
  """Definition of pow2_64 as a table: pow2_64(k) is the word with only bit k set (0 <= k < 64)."""
  k = z3.Int('k')
  return [POW2(c) == z3.BitVecVal(1 << c, 64) for c in range(64)]


class Uninterp(Sort):
  """Opaque values compared with == (identity / opaque equality)."""

  _cache = {}

  def __new__(cls, name):
    if name in cls._cache:
      return cls._cache[name]
    o = super().__new__(cls)
    o.name = name
    o._z = z3.DeclareSort(name)
    o._lits = {}
    cls._cache[name] = o
    return o

  def z3(self):
    return self._z

  def literal(self, text):
    """A named constant; distinct literals are distinct (axiom in `facts`)."""
    if text not in self._lits:
      self._lits[text] = z3.Const('%s!%s' % (self.name, text), self._z)
    return self._lits[text]

  def facts(self):
    lits = list(self._lits.values())
    return [z3.Distinct(*lits)] if len(lits) > 1 else []


STR = Uninterp('Str')


class Adt(Sort):
  """Algebraic datatype; constructors correspond to concrete Python classes.

  `z` is a z3 datatype sort built by the theory module; `ctors` maps a python
  class name to (constructor index, [field names]).
  """

  def __init__(self, name, z, ctors, field_sorts):
    self.name = name
    self._z = z
    self.ctors = ctors  # clsname -> (idx, [fieldname])
    self.field_sorts = field_sorts  # (clsname, field) -> Sort

  def z3(self):
    return self._z

  def is_(self, clsname, t):
    idx = self.ctors[clsname][0]
    return self._z.recognizer(idx)(t)

  def make(self, clsname, args):
    idx = self.ctors[clsname][0]
    c = self._z.constructor(idx)
    return c(*args)

  def field(self, clsname, fname, t):
    idx, fields = self.ctors[clsname]
    return self._z.accessor(idx, fields.index(fname))(t)

  def classes_with_field(self, fname):
    return [c for c, (_, fs) in self.ctors.items() if fname in fs]


class Opt(Sort):
  _cache = {}

  def __new__(cls, inner):
    key = inner.name
    if key in cls._cache:
      return cls._cache[key]
    o = super().__new__(cls)
    o.inner = inner
    o.name = 'Opt[%s]' % inner.name
    o.flat = inner.flat
    tag = _mangle(inner.name)
    d = z3.Datatype('Opt_%s' % tag)
    d.declare('none_' + tag)
    d.declare('some_' + tag, ('val_' + tag, inner.z3()))
    o._z = d.create()
    o._tag = tag
    cls._cache[key] = o
    return o

  def z3(self):
    return self._z

  def none(self):
    return self._z.constructor(0)()

  def some(self, t):
    return self._z.constructor(1)(t)

  def is_none(self, t):
    return self._z.recognizer(0)(t)

  def val(self, t):
    return self._z.accessor(1, 0)(t)

  def eq(self, a, b):
    if self.inner.flat:
      return a == b
    return z3.Or(
        z3.And(self.is_none(a), self.is_none(b)),
        z3.And(z3.Not(self.is_none(a)), z3.Not(self.is_none(b)),
               self.inner.eq(self.val(a), self.val(b))))


def _mangle(s):
  return (s.replace('[', '_').replace(']', '').replace(',', '_')
          .replace(' ', ''))


class Seq(Sort):
  """list / tuple: (Array Int T, len).  Not flat."""
  flat = False
  _cache = {}

  def __new__(cls, elem):
    key = elem.name
    if key in cls._cache:
      return cls._cache[key]
    o = super().__new__(cls)
    o.elem = elem
    o.name = 'Seq[%s]' % elem.name
    tag = 'Seq_%s' % _mangle(elem.name)
    d = z3.Datatype(tag)
    d.declare('mk_' + tag, ('arr_' + tag, z3.ArraySort(z3.IntSort(), elem.z3())),
              ('len_' + tag, z3.IntSort()))
    o._z = d.create()
    o._mk = 'mk_' + tag
    cls._cache[key] = o
    return o

  def z3(self):
    return self._z

  def arr(self, t):
    if z3.is_app(t) and t.decl().name() == self._mk:
      return t.arg(0)
    return self._z.accessor(0, 0)(t)

  def len(self, t):
    if z3.is_app(t) and t.decl().name() == self._mk:
      return t.arg(1)
    return self._z.accessor(0, 1)(t)

  def mk(self, arr, n):
    return self._z.constructor(0)(arr, n)

  def at(self, t, i):
    return select(self.arr(t), i if z3.is_expr(i) else z3.IntVal(i))

  def empty(self):
    return self.mk(z3.K(z3.IntSort(), self.elem.fresh('dflt')), z3.IntVal(0))

  def of(self, items):
    a = z3.K(z3.IntSort(), self.elem.fresh('dflt'))
    for i, it in enumerate(items):
      a = z3.Store(a, i, it)
    return self.mk(a, z3.IntVal(len(items)))

  def wf(self, t):
    return self.len(t) >= 0

  def eq(self, a, b):
    k = z3.FreshConst(z3.IntSort(), 'k')
    return z3.And(
        self.len(a) == self.len(b),
        z3.ForAll([k], z3.Implies(
            z3.And(0 <= k, k < self.len(a)),
            self.elem.eq(self.at(a, k), self.at(b, k)))))

  def contains(self, t, x):
    k = z3.FreshConst(z3.IntSort(), 'k')
    cc = _CONCATS.get(t.get_id())
    if cc is not None:
      return z3.Or(self.contains(cc[0], x), self.contains(cc[1], x))
    info = _SLICES.get(t.get_id())
    if info is not None:
      # x in base[lo:hi]: quantify over the indices of the base sequence (no index
      # arithmetic under the quantifier, which E-matching cannot invert)
      base, lo, hi = info
      return z3.Exists([k], z3.And(lo <= k, k < hi, self.elem.eq(self.at(base, k), x)))
    return z3.Exists([k], z3.And(0 <= k, k < self.len(t),
                                 self.elem.eq(self.at(t, k), x)))

  def slice(self, t, lo, hi):
    """t[lo:hi] with Python clamping; lo/hi are z3 ints or None."""
    n = self.len(t)

    def clamp(v, default):
      if v is None:
        return default
      v = z3.If(v < 0, v + n, v)
      return z3.If(v < 0, z3.IntVal(0), z3.If(v > n, n, v))
    lo = clamp(lo, z3.IntVal(0))
    hi = clamp(hi, n)
    p = z3.FreshConst(z3.IntSort(), 'p')
    arr = z3.Lambda([p], z3.Select(self.arr(t), p + lo))
    ln = z3.If(hi - lo < 0, z3.IntVal(0), hi - lo)
    r = self.mk(arr, z3.simplify(ln))
    _SLICES[r.get_id()] = (t, z3.simplify(lo), z3.simplify(hi))
    _KEEP.append(r)
    return r

  def slice_exact(self, t, lo, hi):
    """t[lo:hi] when 0 <= lo <= hi <= len(t) is known: no clamping terms."""
    p = z3.FreshConst(z3.IntSort(), 'p')
    arr = z3.Lambda([p], z3.Select(self.arr(t), p + lo))
    r = self.mk(arr, z3.simplify(hi - lo))
    _SLICES[r.get_id()] = (t, z3.simplify(lo), z3.simplify(hi))
    _EXACT_SLICES[r.get_id()] = (t, lo, hi)
    _KEEP.append(r)
    return r

  def concat(self, a, b):
    """a + b as a named array with two pointwise facts (returned for the caller to assume):
    triggered on the elements of the parts, so that E-matching finds the shifted index."""
    p = z3.FreshConst(z3.IntSort(), 'p')
    la, lb = self.len(a), self.len(b)
    arr = z3.FreshConst(z3.ArraySort(z3.IntSort(), self.elem.z3()), 'cat')
    r = self.mk(arr, la + lb)
    facts = [
        forall_pat([p], z3.Implies(z3.And(0 <= p, p < la), z3.Select(arr, p) == self.at(a, p)),
                   [z3.Select(arr, p), self.at(a, p)]),
        forall_pat([p], z3.Implies(z3.And(0 <= p, p < lb), z3.Select(arr, p + la) == self.at(b, p)),
                   [self.at(b, p)]),
        forall_pat([p], z3.Implies(z3.And(la <= p, p < la + lb), z3.Select(arr, p) == self.at(b, p - la)),
                   [z3.Select(arr, p)]),
    ]
    _CONCATS[r.get_id()] = (a, b)
    _KEEP.append(r)
    _PENDING_FACTS.extend(facts)
    return r


class SetOf(Sort):
  """set / frozenset local value: Array(T, Bool).  Elements must be flat."""
  _cache = {}

  def __new__(cls, elem):
    assert elem.flat, 'set elements must be flat: %s' % elem
    key = elem.name
    if key in cls._cache:
      return cls._cache[key]
    o = super().__new__(cls)
    o.elem = elem
    o.name = 'Set[%s]' % elem.name
    o._z = z3.ArraySort(elem.z3(), z3.BoolSort())
    o._card = z3.Function('card_%s' % _mangle(elem.name), o._z, z3.IntSort())
    cls._cache[key] = o
    return o

  def z3(self):
    return self._z

  def empty(self):
    return z3.K(self.elem.z3(), z3.BoolVal(False))

  def eq(self, a, b):
    # array equality is extensional in the SMT theory of arrays
    return a == b

  def is_empty(self, t):
    x = self.elem.fresh('x')
    return z3.ForAll([x], z3.Not(z3.Select(t, x)))

  def card(self, t):
    return self._card(t)

  def card_facts(self, t):
    """Facts about card(t) sufficient for comparisons with 0 and 1."""
    x = self.elem.fresh('x')
    y = self.elem.fresh('y')
    c = self._card(t)
    return [
        c >= 0,
        (c == 0) == z3.ForAll([x], z3.Not(z3.Select(t, x))),
        (c == 1) == z3.Exists([x], z3.And(
            z3.Select(t, x),
            z3.ForAll([y], z3.Implies(z3.Select(t, y), y == x)))),
    ]


class DictOf(Sort):
  """dict: (dom: Array(K,Bool), val: Array(K,V)).  Keys must be flat."""
  flat = False
  _cache = {}

  def __new__(cls, key, val):
    assert key.flat, 'dict keys must be flat: %s' % key
    k = (key.name, val.name)
    if k in cls._cache:
      return cls._cache[k]
    o = super().__new__(cls)
    o.key = key
    o.val = val
    o.name = 'Dict[%s,%s]' % (key.name, val.name)
    tag = 'Dict_%s_%s' % (_mangle(key.name), _mangle(val.name))
    d = z3.Datatype(tag)
    d.declare('mk_' + tag, ('dom_' + tag, z3.ArraySort(key.z3(), z3.BoolSort())),
              ('val_' + tag, z3.ArraySort(key.z3(), val.z3())))
    o._z = d.create()
    o._mk = 'mk_' + tag
    cls._cache[k] = o
    return o

  def z3(self):
    return self._z

  def dom(self, t):
    if z3.is_app(t) and t.decl().name() == self._mk:
      return t.arg(0)
    return self._z.accessor(0, 0)(t)

  def vals(self, t):
    if z3.is_app(t) and t.decl().name() == self._mk:
      return t.arg(1)
    return self._z.accessor(0, 1)(t)

  def mk(self, dom, val):
    return self._z.constructor(0)(dom, val)

  def empty(self):
    return self.mk(z3.K(self.key.z3(), z3.BoolVal(False)),
                   z3.K(self.key.z3(), self.val.fresh('dflt')))

  def has(self, t, k):
    return z3.Select(self.dom(t), k)

  def get(self, t, k):
    return z3.Select(self.vals(t), k)

  def put(self, t, k, v):
    return self.mk(z3.Store(self.dom(t), k, z3.BoolVal(True)),
                   z3.Store(self.vals(t), k, v))

  def eq(self, a, b):
    x = self.key.fresh('x')
    return z3.ForAll([x], z3.And(
        self.has(a, x) == self.has(b, x),
        z3.Implies(self.has(a, x),
                   self.val.eq(self.get(a, x), self.get(b, x)))))


class Rec(Sort):
  """Immutable record (frozen dataclass with one concrete class)."""

  def __init__(self, name, fields):
    self.name = name
    self.fields = fields  # list of (fname, Sort)
    d = z3.Datatype(name)
    d.declare('mk_' + name, *[(f, s.z3()) for f, s in fields])
    self._z = d.create()
    self.flat = all(s.flat for _, s in fields)

  def z3(self):
    return self._z

  def make(self, args):
    return self._z.constructor(0)(*args)

  def field(self, fname, t):
    i = [f for f, _ in self.fields].index(fname)
    r = self._z.accessor(0, i)(t)
    if z3.is_app(t) and t.decl().name() == 'mk_' + self.name:
      return t.arg(i)
    return r

  def field_sort(self, fname):
    return dict(self.fields)[fname]

  def eq(self, a, b):
    if self.flat:
      return a == b
    return z3.And(*[s.eq(self.field(f, a), self.field(f, b))
                    for f, s in self.fields])


class Tup(Sort):
  """Fixed-arity heterogeneous tuple."""
  _cache = {}

  def __new__(cls, *elems):
    key = tuple(e.name for e in elems)
    if key in cls._cache:
      return cls._cache[key]
    o = super().__new__(cls)
    o.elems = elems
    o.name = 'Tup[%s]' % ','.join(key)
    tag = 'Tup_' + '_'.join(_mangle(k) for k in key)
    d = z3.Datatype(tag)
    d.declare('mk_' + tag, *[('f%d_%s' % (i, tag), e.z3()) for i, e in enumerate(elems)])
    o._z = d.create()
    o._mk = 'mk_' + tag
    o.flat = all(e.flat for e in elems)
    cls._cache[key] = o
    return o

  def z3(self):
    return self._z

  def make(self, args):
    return self._z.constructor(0)(*args)

  def get(self, t, i):
    if z3.is_app(t) and t.decl().name() == self._mk:
      return t.arg(i)
    return self._z.accessor(0, i)(t)

  def eq(self, a, b):
    if self.flat:
      return a == b
    return z3.And(*[e.eq(self.get(a, i), self.get(b, i))
                    for i, e in enumerate(self.elems)])
