"""Verdicts, evidence, replay files (DESIGN 2.5, 2.7)."""
import hashlib
import json
import os
import time

VERIF = os.path.dirname(os.path.dirname(os.path.abspath(__file__)))


def load_lock():
  p = os.path.join(VERIF, 'contracts', 'OBLIGATIONS.lock.json')
  if os.path.exists(p):
    return json.load(open(p))
  return {}


def load_known():
  return json.load(open(os.path.join(VERIF, 'known_findings.json')))


def write_replay(pid, payload):
  d = os.path.join(VERIF, 'replays')
  os.makedirs(d, exist_ok=True)
  h = hashlib.sha256(json.dumps(payload, sort_keys=True, default=str).encode()).hexdigest()[:12]
  path = os.path.join(d, '%s-%s.json' % (pid, h))
  json.dump(payload, open(path, 'w'), indent=1, default=str)
  return path


def write_evidence(pid, ev, scratch=False):
  # runs against a scratch copy (--repo DIR) must not overwrite the evidence for /repo
  d = os.path.join(VERIF, 'evidence', 'scratch') if scratch else os.path.join(VERIF, 'evidence')
  os.makedirs(d, exist_ok=True)
  path = os.path.join(d, '%s.json' % pid)
  json.dump(ev, open(path, 'w'), indent=1, default=str)
  return path


def smt_sample(o, limit=2500):
  import z3
  s = z3.Solver()
  s.add(*o.formula())
  txt = s.to_smt2()
  return txt if len(txt) <= limit else txt[:limit] + '\n; ... truncated (%d chars)' % len(txt)
