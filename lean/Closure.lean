/-
C09: from the one-step postconditions proved by z3 on the real C++ (contracts/c09.py) to the
property statement "is_reachable answers the reflexive-transitive closure of the inserted edges".

E      : the edges passed to add_connection so far (ghost)
R      : the relation read off the bit matrix  (R i j  <->  bit j of row i)
G n    : forall i j < n,  R i j <-> ReflTransGen E i j          (the closure invariant)
-/
import Mathlib.Logic.Relation
open Relation

/-- closure after adding one edge (s,d) = old closure ∪ old(·,s) × old(d,·) -/
theorem rtc_add_edge {α : Type} (E : α → α → Prop) (s d : α) (a b : α) :
    ReflTransGen (fun x y => E x y ∨ (x = s ∧ y = d)) a b ↔
      (ReflTransGen E a b ∨ (ReflTransGen E a s ∧ ReflTransGen E d b)) := by
  constructor
  · intro h
    induction h with
    | refl => exact Or.inl ReflTransGen.refl
    | tail _ hstep ih =>
      rcases hstep with hE | ⟨rfl, rfl⟩
      · rcases ih with h1 | ⟨h1, h2⟩
        · exact Or.inl (h1.tail hE)
        · exact Or.inr ⟨h1, h2.tail hE⟩
      · rcases ih with h1 | ⟨h1, _⟩
        · exact Or.inr ⟨h1, ReflTransGen.refl⟩
        · exact Or.inr ⟨h1, ReflTransGen.refl⟩
  · have mono : ∀ {x y}, ReflTransGen E x y →
        ReflTransGen (fun x y => E x y ∨ (x = s ∧ y = d)) x y := by
      intro x y h
      induction h with
      | refl => exact ReflTransGen.refl
      | tail _ hE ih => exact ih.tail (Or.inl hE)
    rintro (h | ⟨h1, h2⟩)
    · exact mono h
    · exact ((mono h1).tail (Or.inr ⟨rfl, rfl⟩)).trans (mono h2)

/-- edges only between nodes < n: a path that starts below n stays below n -/
theorem rtc_stays_below (E : Nat → Nat → Prop) (n : Nat)
    (hE : ∀ x y, E x y → x < n ∧ y < n) {a b : Nat} (h : ReflTransGen E a b) (ha : a < n) : b < n := by
  induction h with
  | refl => exact ha
  | tail _ hstep _ => exact (hE _ _ hstep).2

/-- ... and a path that ends at a node with no edges is trivial -/
theorem rtc_to_fresh (E : Nat → Nat → Prop) (n : Nat)
    (hE : ∀ x y, E x y → x < n ∧ y < n) {a : Nat} (h : ReflTransGen E a n) : a = n := by
  cases h with
  | refl => rfl
  | tail _ hstep => exact absurd (hE _ _ hstep).2 (Nat.lt_irrefl n)

theorem rtc_from_fresh (E : Nat → Nat → Prop) (n : Nat)
    (hE : ∀ x y, E x y → x < n ∧ y < n) {b : Nat} (h : ReflTransGen E n b) : b = n := by
  induction h with
  | refl => rfl
  | tail _ hstep ih => subst ih; exact absurd (hE _ _ hstep).1 (Nat.lt_irrefl _)

/-- add_connection: z3-proved postcondition  +  invariant  ==>  invariant for E ∪ {(src,dst)} -/
theorem invariant_step_add_connection (E R R' : Nat → Nat → Prop) (n src dst : Nat)
    (hsrc : src < n) (hdst : dst < n)
    (G : ∀ i j, i < n → j < n → (R i j ↔ ReflTransGen E i j))
    (post : ∀ i j, i < n → j < n → (R' i j ↔ (R i j ∨ (R i src ∧ R dst j)))) :
    ∀ i j, i < n → j < n →
      (R' i j ↔ ReflTransGen (fun x y => E x y ∨ (x = src ∧ y = dst)) i j) := by
  intro i j hi hj
  rw [post i j hi hj, rtc_add_edge, G i j hi hj, G i src hi hsrc, G dst j hdst hj]

/-- add_node: z3-proved postcondition  +  invariant  ==>  invariant for n+1 nodes, same edges -/
theorem invariant_step_add_node (E R R' : Nat → Nat → Prop) (n : Nat)
    (hE : ∀ x y, E x y → x < n ∧ y < n)
    (G : ∀ i j, i < n → j < n → (R i j ↔ ReflTransGen E i j))
    (keep : ∀ i j, i < n → j < n → (R' i j ↔ R i j))
    (selfb : R' n n)
    (fresh : ∀ i, i < n → (¬ R' i n ∧ ¬ R' n i)) :
    ∀ i j, i < n + 1 → j < n + 1 → (R' i j ↔ ReflTransGen E i j) := by
  intro i j hi hj
  rcases Nat.lt_succ_iff_lt_or_eq.mp hi with hi' | rfl
  · rcases Nat.lt_succ_iff_lt_or_eq.mp hj with hj' | rfl
    · rw [keep i j hi' hj', G i j hi' hj']
    · constructor
      · intro h; exact absurd h (fresh i hi').1
      · intro h
        have := rtc_to_fresh E j hE h
        omega
  · rcases Nat.lt_succ_iff_lt_or_eq.mp hj with hj' | rfl
    · constructor
      · intro h; exact absurd h (fresh j hj').2
      · intro h
        have := rtc_from_fresh E i hE h
        omega
    · constructor
      · intro _; exact ReflTransGen.refl
      · intro _; exact selfb

/-- edges registered backwards (CFGNode::ConnectTo calls add_connection(node, this)):
    the closure of the converse relation is the converse of the closure -/
theorem rtc_swap {α : Type} (F : α → α → Prop) (a b : α) :
    ReflTransGen (fun x y => F y x) b a ↔ ReflTransGen F a b := by
  constructor
  · intro h
    induction h with
    | refl => exact ReflTransGen.refl
    | tail _ hstep ih => exact ReflTransGen.head hstep ih
  · intro h
    induction h with
    | refl => exact ReflTransGen.refl
    | tail _ hstep ih => exact ReflTransGen.head hstep ih
