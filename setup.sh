#!/bin/bash
# Offline setup: nothing is fetched. Pre-builds the scratch C++ extension (pytype.typegraph.cfg)
# from /repo's sources into /verif/build/<hash>/ for native replays; checks rebuild it
# themselves whenever the typegraph sources change.
cd "$(dirname "$0")"
mkdir -p build evidence replays
/venv/bin/python -B -c "import sys; sys.path.insert(0,'native'); import common; print(common.ensure_ext('/repo'))"
