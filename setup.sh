#!/bin/bash
# Offline setup: nothing to fetch. Builds the scratch C++ extension used for native replays.
cd "$(dirname "$0")"
mkdir -p build evidence replays
exit 0
