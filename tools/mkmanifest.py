#!/usr/bin/env python3
"""Regenerates MANIFEST.json from the table below (kept valid at all times)."""
import json
import os

VERIF = os.path.dirname(os.path.dirname(os.path.abspath(__file__)))

CLAIMED = {
    'C18': dict(
        text='Unbounded proof (all inputs, all iterations) that the real source of conditions._Not.make, '
             '_Composite.make[_And/_Or], Variable.with_condition, BlockState.store_local/load_local/with_condition/merge_into '
             'meets contracts whose postconditions are the property statement (sem under an arbitrary valuation; '
             'vals(result) = union of vals; state invariant I). VCs are generated from /repo on every run and discharged by z3.',
        note='Trusted: the VC generator (engine/), z3/cvc5, the SMT models of set/dict/tuple/dataclass (A-LIB), '
             'Condition has no further subclasses (A-ADT), binding values in one Variable are pairwise distinct (A-DISTINCT, '
             'precondition on callers in rewrite/frame.py). Unverified surround: frame_base.py / frame.py callers.',
        technique='contract-based deductive verification: Python ast -> VC generator with loop invariants -> z3 (cvc5 fallback)',
        design='3 C18'),
}

CLAIMED['C17'] = dict(
    text='Unbounded proof that the real source of booleq.Eq, And, Or, simplify_exprs[_And/_Or] and every override of '
         'BooleanTerm.simplify meets contracts taken from the property: result is logically equivalent (under an arbitrary '
         'valuation / every valuation drawn from the assignments table) and in flattened/absorbed normal form; in-place '
         'mutation of a set borrowed from an existing term is a frame obligation. Second theory: the hand-written __eq__/__hash__ of _Eq/_And/_Or are structural and lawful (proof harness over the inlined real methods), which discharges the structural-equality assumption of the first theory.',
    note='Trusted: engine/, z3, A-ADT (no further BooleanTerm subclasses; checked syntactically), A-EQ (set membership of terms is '
         'structural equality: __eq__/__hash__ of _Eq/_And/_Or not under contract), precondition: every _Eq has a variable on one side. '
         'Unverified surround: Solver.solve, extract_pivots, type_match.py.',
    technique='contract-based deductive verification: Python ast -> VC generator with loop invariants -> z3 (cvc5 fallback)',
    design='3 C17')

CLAIMED['C12'] = dict(
    text='Third sentence of C12 only (equal type nodes hash equally). Lemma a == b ==> hash(a) == hash(b) proved for all '
         'inputs over the real bodies of every hand-written __eq__/__hash__ in pytd.py (_SetOfTypes/UnionType/IntersectionType, '
         'ClassType, TypeDeclUnit), plus a frame obligation that no other node class defines its own equality or hash. '
         'The msgspec-generated pairs of the remaining classes and the encode/decode round trip (first two sentences) are NOT decided.',
    note='Trusted: engine/, z3, A-LIB (hash(frozenset)/hash(tuple)/hash(str) are functions of the value), A-MSGSPEC '
         '(generated structural eq/hash, third-party C), Class.__hash__ (delegates to msgspec). A bounded native sweep over '
         'generated nodes of every class samples the assumed part (labelled bounded).',
    technique='contract-based deductive verification: proof harness (lemma) over the inlined real methods -> z3; frame scan of the AST',
    design='3 C12')

CLAIMED['C10'] = dict(
    text='Unbounded proof that the real source of mro.MergeSequences (3 nested loops, in-place deletion through aliases), '
         'Dedup and MROMerge computes exactly the chain of CPython pmerge steps (candidate = head of the first sequence whose head '
         'is in no tail; advance every sequence with that head) and raises iff the chain gets stuck. Class.compute_mro, which builds '
         'the rows (and now refuses duplicate bases), and attribute lookup are covered only by a bounded sweep through the real VM '
         'against type(). Second theory: Class.compute_mro -- refuses a repeated base, hands MROMerge exactly the rows [[C], L[B1], ..., L[Bn], [B1..Bn]] with parameterised classes stripped, and its stripped result is the pmerge step chain from those rows to the all-empty state; MROError only for a repeated base or a stuck merge. MergeSequences/MROMerge are also proved to return only classes of their input rows (so compute_mro never raises KeyError).',
    note='Trusted: engine/, z3, A-SPEC (StepP transliterates typeobject.c pmerge; validated against type() on every hierarchy of '
         '<=5 classes), preconditions: distinct elements per row (Dedup), no SINGLETON classes, inner lists are distinct objects. '
         'compute_mro/_ComputeMRO/attribute lookup: bounded only. compute_mro theory: abstract_utils.get_mro_bases opaque; _ComputeMRO/GetBasesInMRO (stub classes), attribute lookup: bounded only.',
    technique='contract-based deductive verification: Python ast -> VC generator (ghost history, loop invariants, alias write-through) -> z3',
    design='8.3, 3 C10')

CLAIMED['C13'] = dict(
    text='Unbounded proof that the real source of SignedFunction._map_args raises a FailedFunctionCall subclass iff one of the five '
         'CPython binding rules is violated (too many positionals; multiple values; unexpected keyword incl. positional-only named '
         'without **kwargs; missing positional; missing keyword-only) and on success gives every parameter exactly the argument CPython '
         'gives it (positional / keyword / default / *args tuple / **kwargs dict). Through-the-VM behaviour is sampled by a bounded sweep against real calls (plain functions, methods, classmethods, staticmethods, __init__/__new__ constructors, f.__defaults__ assignments, and functions/methods/constructors declared in a stub). Both instances of _map_args are proved: self a SignedFunction and self an InterpreterFunction (argcount / get_nondefault_params overridden; the generator is verified as the builder of the list it yields).',
    note='Trusted: engine/, z3, A-SPEC (rules transliterated from the language reference; validated against real calls), cfg.Variable '
         'operations as opaque constructors, preconditions: no *args/**kwargs at the call site, well-formed signature, visible named args. '
         'InterpreterFunction overrides of argcount/get_nondefault_params, overload choice, PyTDFunction binding: unverified surround. InterpreterFunction instance: precondition that the code object lists the parameter names the signature was built from (_build_signature is unverified surround: a contract for it was withdrawn because two obligations were unstable).',
    technique='contract-based deductive verification: Python ast -> VC generator (loop invariants, anchored lemmas) -> z3',
    design='3 C13')

CLAIMED['C09'] = dict(
    text='Unbounded proof over the real C++ of reachable.cc (lowered mechanically from the clang AST on every run): representation '
         'invariant of the bit matrix (row widths, clear padding), add_node keeps old answers and adds exactly the reflexive pair, '
         'add_connection makes R\' = R union R(.,src) x R(dst,.) for every node count (any number of 64-bit buckets, self and duplicate '
         'edges, dst row aliasing), is_reachable reads R; all int/size_t arithmetic in range and every operator[] in bounds. '
         'The closure statement (R = reflexive-transitive closure of the inserted edges) follows by the Lean lemma lean/Closure.lean. Second theory: the typegraph.cc glue -- CFGNode::ConnectTo (after a.ConnectTo(b) the backward relation is the old one plus everything that follows from the pair (b, a), also on the self-edge and duplicate-edge early returns; every recorded forward edge is in the relation) and Program::is_reachable (answers R(dst, src) of the backward relation) -- proved over a heap model lowered from the clang AST, using the view-level clauses of reachable.cc.',
    note='Trusted: engine/ incl. the C++ lowering (cxxfront.py), clang, z3, Lean 4/Mathlib; A-SHIFT, A-STL, A-MEM, LP64. '
         'typegraph.cc glue (NewCFGNode/ConnectTo/Program::is_reachable argument order) and cfg.cc wrappers: bounded native sweep vs BFS only; Variable.Bindings(viewpoint) (Variable::Prune, the user of reachability the property names) is compared with a graph oracle in the same sweep (bounded). Glue theory: unique_ptr::operator-> is the owned object, Program::InvalidateSolver does not touch reachability state; NewCFGNode/ConnectNew (dense ids, constructor) and the cfg.cc wrappers: bounded native sweep only.',
    technique='contract-based deductive verification: clang JSON AST -> Python-subset lowering -> VC generator (loop invariants, BV64 + arrays) -> z3; Lean 4 closure lemma',
    design='8.3, 3 C09')

CLAIMED['C08'] = dict(
    text='Proof of the invalidation protocol (first mechanism of C08) for every history: typestate contracts over all ~180 function '
         'bodies of typegraph.cc, typegraph.h and cfg.cc (clang AST, re-read on every run): on every path every mutation of a '
         'solver-observable field happens after InvalidateSolver() with no solver created in between; private helpers carry '
         '`requires invalidated` and every call site establishes it. Independence from query order inside one solver lifetime '
         '(memo tables, path cache) is NOT decided (functional correctness of the search, see C07). Frame obligations: the data members of Variable/Binding/CFGNode/Origin/Program are exactly the ones the protocol accounts for (a new or mutable member -- e.g. a cache filled by a const accessor -- is a failed obligation).',
    note='Trusted: engine/ (typestate analysis in contracts/c08.py), clang, the declared set of solver-observable fields (cross-checked '
         'against the accessors solver.cc uses), Prune\'s guarded operator[], no callbacks from STL/C-API. A bounded native history search '
         '(live Program vs rebuilt replica at every query) samples the undecided part.',
    technique='contract-based deductive verification: clang JSON AST -> typestate contracts (requires/ensures invalidated) checked per function over all paths',
    design='8.3, 3 C08')

CLAIMED['C03'] = dict(
    text='Proof, for all inputs and all histories of calls, over the real source of directors.py: (1) the line-set kernel _LineSet.__init__/set_line/'
         'start_range/__contains__ against the view member(k) (per-line entries override the parity of transitions <= k): set_line changes exactly '
         'one line, start_range changes exactly the lines >= its argument that have no per-line entry and raises iff out of order; (2) '
         'Director._process_disable: for every error class E and every line q the verdict member(disables[E], q) changes exactly when E is named, valid and '
         'applicable to the line range -- on the directive line and the adjusted start line (closed directive) or from the line on (open-ended) -- and for '
         'nothing else, and the type-ignore set is untouched; Director._adjust_line_number_for_pytype_directive; (3) Director.filter_error: an error of this '
         'file is reported iff its final line is under no type-ignore, no disable=* and no disable of its own class; errors of other files / without a line '
         'are always reported; the line is moved only for an implicit return. The parser (comment grouping, logical line ranges), the shrinking of function '
         'ranges and the VM\'s line attribution are covered only by a bounded sweep through the real VM (every reported error x trailing disable / type: ignore / stand-alone range).',
    note='Trusted: engine/, z3, A-LIB (bisect.bisect contract on strictly increasing lists; uniqueness proved as a lemma), A-DEFAULTDICT (a missing key of the '
         'defaultdict of line sets behaves as an empty _LineSet), distinct keys hold distinct _LineSet objects, errorlog.is_valid_error_name pure, '
         'find_outermost uninterpreted. The Director theory uses the _LineSet methods through the clauses proved in the first theory. Known finding F6 '
         '(a directive inside a multi-line statement acts on the whole statement, by design) is matched by input class. Unverified surround: parser.py, '
         '_parse_src_tree, VM line attribution, eval_expr.',
    technique='contract-based deductive verification: Python ast -> VC generator (two theories, modular calls to mutating methods, loop invariant over the set of names) -> z3; bounded VM sweep for the surround',
    design='8.3, 3 C03')

CLAIMED['C16'] = dict(
    text='Unbounded proof over the real source of blocks._split_bytecode (partition: the concatenation of the blocks is the instruction '
         'list, every block non-empty, every resolved jump target that is an instruction of the code starts a block), of blocks.compute_order '
         '(edges: every block gets the fall-through edge unless its last instruction has no successor, and the edges to the blocks that start '
         'at the target of its first instruction, the target and the block_target of its last instruction; incoming mirrors outgoing; no KeyError; '
         'blocks are heap objects mutated through aliases) and of cfg_utils.order_nodes (execution order: starts at the entry, lists no block twice, '
         'every later block has a predecessor earlier in the list, the listed set is exactly the set reachable from the entry). Also proved, over heap opcodes: opcodes._make_opcode_list (instruction k carries index k, next/prev links are consistent, instructions pairwise distinct, every offset maps to the index of an instruction of the list) and opcodes._add_jump_targets (every jump target resolves to an instruction of the same list and arg is its index) -- which discharges the next-link precondition of the splitter. The 3.12 '
         'async-for/yield-from block surgery, _make_opcodes/_add_setup_except and add_pop_block_targets are covered only by a '
         'bounded sweep: every clause of C16 evaluated on every code object of a CPython 3.12 standard-library sample and of randomly generated (a)sync functions, through the real pipeline. '
         'Known findings F10 (exception-edge block of a SEND loop dropped on purpose) and F16 (END_ASYNC_FOR block merged into two loop-closing blocks).',
    note='Trusted: engine/ (incl. the heap model of Block objects), z3, A-ATTR (opcode attributes are stable reads), A-LFP (graph reachability '
         'axiomatised as a least fixed point), A-LIB (min over a generator returns some element), preconditions: consistent next-links, no '
         'SEND/GET_ANEXT under 3.12 for the splitter, python_version < 3.12 for compute_order (same edge loop for all versions), block_target '
         'of a last instruction starts a block, node list closed under outgoing edges. Not proved: the final assert of order_nodes, and that '
         'compute_order adds no other edges. Unverified surround: opcodes.build_opcodes, add_pop_block_targets, async surgery, compute_predecessors.',
    technique='contract-based deductive verification: Python ast -> VC generator (loop invariants, ghost cut points, heap model, least-fixed-point schema) -> z3; bounded native sweep for the surround',
    design='8.3, 3 C16')

CLAIMED['C11'] = dict(
    text='Unbounded proof over the real source of pytd_utils.JoinTypes, the function every union built by the optimiser passes through: '
         'the result admits a value iff one of the inputs does (never narrower, never wider: den(result) = OR den(t_i) for an arbitrary value, '
         'with Nothing = empty, Any = everything, union = disjunction), is in normal form (a union has >= 2 members, none a union or Nothing, '
         'no duplicates), and joining the members of a result gives the same result (idempotence, proved as a lemma over the contract). '
         'All optimiser passes (CombineContainers, CombineReturnsAndExceptions, superclass simplification, CollapseLongUnions, ...) and '
         'Optimize as a whole are covered only by a bounded sweep against a finite value model (widening and idempotence). '
         'Known finding F8: Optimize is not idempotent when signatures coincide only after a later pass. Frame obligation: no module- or class-level mutable state written by functions and no process-wide memo in the four optimiser modules; a native history check optimises the same stubs in two orders in two processes. Known finding F14: a nested class sharing its bare name with a top-level class narrows a union. Second theory: optimize.CombineReturnsAndExceptions (_ReturnsAndExceptions.Update, _GroupByArguments, VisitFunction) over heap collector objects: every signature keeps a counterpart with the same parameters whose return type admits at least what it admitted and nothing the signatures with those parameters did not admit.',
    note='Trusted: engine/, z3, A-EQ (node equality is an equivalence respected by node functions), A-DEN, A-CTOR (UnionType(...) flattens '
         'and de-duplicates: pytd._FlattenTypes assumed), A-LIB (deque as list). Unverified surround: every visitor class of optimize.py, '
         'visitors.py, the pass pipeline.',
    technique='contract-based deductive verification: Python ast -> VC generator (loop invariant, anchored lemma, proof harness) -> z3; bounded native sweep vs a value model for the surround',
    design='8.3, 3 C11')

CLAIMED['C19'] = dict(
    text='Unbounded proof over the real source of pytype_runner.get_imports_map and PytypeRunner.setup_build against a ghost build plan '
         '(declared outputs, transitively declared dependencies of every statement, content of every imports file): the precondition of '
         'the ghost model of write_build_statement IS the property -- every dependency a build step declares is the output of an earlier '
         'step, and every entry of the step\'s imports map is the default stub or the output of a step it transitively declares as a '
         'dependency (so no schedule that respects the declared edges reads a stub before it is produced), for every sequence of items in '
         'dependency order incl. two-pass cycles. The order of the yielded items (yield_sorted_modules), the text written to build.ninja / '
         '*.imports, path escaping and the exactly-one-check clause are covered only by a bounded sweep (real files parsed back). Second theory: PytypeRunner.yield_sorted_modules (generator verified as a list builder) meets the contract the plan theory assumes: every dependency of a yielded item is the module of an earlier item.',
    note='Trusted: engine/, z3, A-EQ (modules compared by value), A-IO (ghost records = text written), A-FRESH (distinct output / imports '
         'file names), A-PATH (no output equals default.pyi), A-NINJA, A-GEN (generator consumed as a list), assumed contract of '
         'yield_sorted_modules (dependency order; sampled natively). Unverified surround: deps_from_import_graph, escape_ninja_path, '
         '_module_to_output_path, imports_map_loader, ninja.',
    technique='contract-based deductive verification: Python ast -> VC generator (loop invariant over ghost plan state, property as callee precondition) -> z3; bounded native parse-back sweep',
    design='3 C19')

CLAIMED['C04'] = dict(
    text='(1) Last sentence of C04: unbounded proof over the real source of ErrorLog.unique_sorted_errors (nested loops, in-place removal through a dict-value '
         'alias, for/else) that the result is sorted by (filename or "", line) and consists of logged errors, each filed under its own unique representation. '
         '(2) Two frame obligations over every function of the pytype package, checked syntactically on every run: no value is picked from / no sequence is '
         'built in the iteration order of an expression that is syntactically a set (order leak) unless the set is a guarded singleton or the site is in the '
         'committed review list (13 stated assumptions); no function is memoised process-wide (functools.lru_cache/cache) and no function writes module/class-level state (containers, iterators or counters consumed with next, names rebound through global, class scalars rebound through cls.X) outside the review list (14 stated assumptions). A new leak, memo or piece of process-wide state is a failed, named '
         'obligation. (3) The body of C04 -- byte-identical stub text, error report and pickle under any hash seed, in-process history and loader reuse -- is '
         'otherwise a whole-pipeline non-interference property that no function-level contract decides; it is covered by a bounded sweep only: several hundred programs '
         '(test snippets + hand-written name-collision/stress programs) analysed in processes that differ in PYTHONHASHSEED, program order and loader reuse.',
    note='Trusted: engine/, z3, A-POS (equal unique representations have equal sort keys), A-LIB (sorted(); dict insertion order; sum of lists), '
         'textual contract of the one-line _sorted_errors; the frame scan sees syntactic sets only (a set reaching an order-sensitive consumer through a parameter, '
         'an attribute of another object or a call is not seen) and recognises memoisation by decorator name only. _compare_traceback_strings is uninterpreted. '
         'Two genuine hash-seed defects found by the scan were fixed in /repo (600720f, 23ccf1e). Unverified surround: everything else of the pipeline.',
    technique='contract-based deductive verification: Python ast -> VC generator (loop invariants, ghost insertion order, alias write-through) -> z3; syntactic frame/effect obligations (order leaks, process-wide memos) over the package; bounded native determinism sweep for the body of the property',
    design='8.3, 3 C04')

NOT_APPLICABLE = {
    'C01': 'whole abstract interpreter vs CPython execution: no function-level contract expresses over-approximation of execution (DESIGN 4)',
    'C02': 'decided by matcher.py (2000 lines) on live VM values; the inhabitant oracle quantifies over programs, not one call (DESIGN 4)',
    'C05': 'mutual consistency of printer and pyi parser over a grammar; not expressible as contracts on these visitors (DESIGN 4)',
    'C06': 'composition output -> printer -> parser -> loader -> convert across two VM runs (DESIGN 4)',
    'C07': 'functional correctness of a memoised backtracking search over pointer-linked STL structures; needs a C++ separation-logic verifier (DESIGN 4)',
    'C14': 'operator dispatch/attribute lookup through the whole VM and builtin stubs; oracle is CPython executing statements (DESIGN 4)',
    'C15': 'absence of uncaught exceptions across the whole VM for arbitrary source text (DESIGN 4)',
    'C20': 'the transformation is third-party libcst ApplyTypeAnnotationsVisitor; in-repo code is two 10-line stub filters (DESIGN 4)',
}


def main():
  props = [json.loads(l) for l in open(os.path.join(VERIF, 'properties.jsonl'))]
  checks = []
  na = []
  for p in props:
    pid = p['id']
    if pid in CLAIMED:
      c = CLAIMED[pid]
      checks.append(dict(
          property_id=pid,
          quick_cmd='./check %s --tier quick' % pid,
          thorough_cmd='./check %s --tier thorough' % pid,
          evidence_file='evidence/%s.json' % pid,
          replay_cmd_template='./check %s --replay {path}' % pid,
          engine='pyvc',
          level_claimed=dict(category='proof', text=c['text'], design_ref=c['design']),
          level_note=c['note'],
          technique=c['technique']))
    else:
      na.append(dict(property_id=pid, reason=NOT_APPLICABLE.get(
          pid, 'check not built yet; planned as a kernel proof (see DESIGN.md section 3)')))
  m = dict(
      version=1,
      setup_cmd='./setup.sh',
      hooks=dict(guard='PYTYPE_VERIF',
                 enable='none: no source hooks exist; contracts are sidecars under /verif/contracts and the code is re-read from /repo on every run',
                 baseline_off_cmd='cd /repo && /venv/bin/python -m pytest -ra -q -p no:cacheprovider --timeout=900 --continue-on-collection-errors',
                 source_commits=[], add_only=True),
      engines=[dict(name='pyvc', path='engine/', serves_properties=sorted(CLAIMED),
                    kind_free_text='home-made deductive verifier: Python ast / clang AST -> verification conditions (pre/post, loop invariants, frames) -> z3 5.1, cvc5 1.0.3 fallback, Lean 4 for closure lemmas')],
      checks=checks,
      notes='Exit codes of ./check: 0 proved; 1 VIOLATION; 2 UNDECIDED (contract no longer fits the code); 3 checker error. See DESIGN.md.',
      not_applicable=na)
  json.dump(m, open(os.path.join(VERIF, 'MANIFEST.json'), 'w'), indent=1)


if __name__ == '__main__':
  main()
