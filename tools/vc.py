#!/opt/veriftools/pyvenv/bin/python
"""Debug helper: tools/vc.py <Cxx> <function> <obligation-suffix> [--repo DIR]  -> dumps the VC to /tmp/vc.smt2 and tries it."""
import importlib, inspect, os, sys, time
VERIF = os.path.dirname(os.path.dirname(os.path.abspath(__file__)))
sys.path.insert(0, VERIF)
import z3
from engine.exec import Ex

def main():
  pid, fn, suffix = sys.argv[1:4]
  repo = sys.argv[5] if len(sys.argv) > 5 else '/repo'
  mod = importlib.import_module('contracts.' + pid.lower())
  T = mod.build(repo) if inspect.signature(mod.build).parameters else mod.build()
  for name, f in T.lemmas:
    T.axioms.append(f)
  ex = Ex(T, repo)
  for key, c in T.contracts.items():
    if c.verify and c.qualname == fn:
      obls, paths, exits = ex.verify(c)
      for o in obls:
        if o.name.endswith(suffix):
          s = z3.Solver(); s.add(*o.formula())
          open('/tmp/vc.smt2', 'w').write(s.to_smt2())
          print(o.name, o.detail, 'line', o.line, 'assumptions', len(o.assumptions))
          for opts in ({}, {'smt.mbqi': False}):
            s = z3.Solver(); s.set('timeout', 20000)
            for k, v in opts.items(): s.set(k, v)
            s.add(*o.formula()); t0 = time.time(); r = s.check(); print(opts, r, round(time.time() - t0, 2))
          return o
main()
