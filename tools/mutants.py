#!/opt/veriftools/pyvenv/bin/python
"""Mutation self-test: apply each committed source mutation to a scratch copy of the
repo (outside /repo and /verif), run ./check --repo <scratch>, expect exit 1."""
import importlib
import json
import os
import shutil
import subprocess
import sys
import tempfile

VERIF = os.path.dirname(os.path.dirname(os.path.abspath(__file__)))
sys.path.insert(0, VERIF)


def main():
  pid = sys.argv[1].upper()
  only = sys.argv[2:]
  mod = importlib.import_module('contracts.' + pid.lower())
  results = []
  for i, m in enumerate(mod.MUTANTS):
    name = m.get('name', 'm%d' % i)
    if only and name not in only:
      continue
    d = tempfile.mkdtemp(prefix='mut_%s_' % pid)
    try:
      subprocess.run(['rsync', '-a', '--exclude', '.git', '/repo/', d + '/'], check=True)
      p = os.path.join(d, m['file'])
      s = open(p).read()
      if s.count(m['old']) != 1:
        results.append((name, 'MUTANT-STALE (old text occurs %d times)' % s.count(m['old'])))
        continue
      open(p, 'w').write(s.replace(m['old'], m['new']))
      r = subprocess.run([os.path.join(VERIF, 'check'), pid, '--repo', d],
                         capture_output=True, text=True)
      lines = [l for l in r.stdout.splitlines() if l.startswith(('VIOLATION', 'UNDECIDED', 'CHECKER'))]
      expect = m.get('expect', 1)
      ok = (r.returncode == expect)
      results.append((name, '%s exit=%d %s' % ('killed' if ok and expect == 1 else ('accepted(as expected)' if ok else 'UNEXPECTED'), r.returncode, lines[0][:160] if lines else '')))
    finally:
      shutil.rmtree(d, ignore_errors=True)
  for n, r in results:
    print('%-28s %s' % (n, r))
  # evidence file is rewritten by the scratch runs: restore by re-running on /repo is the caller's job


if __name__ == '__main__':
  main()
