#!/bin/bash
# usage: tools/seedcheck.sh <Cxx> [patch]  -- run ./check against a scratch copy of /repo with the seeded patch applied
id=$1; patch=${2:-/verif/seeded/$id/patch.diff}
d=$(mktemp -d /tmp/seedchk_${id}_XXXX)
rsync -a --exclude .git /repo/ $d/
(cd $d && patch -p1 -s < $patch) || { echo "patch failed"; rm -rf $d; exit 9; }
/verif/check $id --repo $d ${@:3}
rc=$?
rm -rf $d
echo "seedcheck $id exit=$rc"
exit $rc
