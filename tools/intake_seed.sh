#!/bin/bash
# usage: tools/intake_seed.sh <Cxx> <round-suffix> <outdir> <worktree>
# copies a sub-agent's deliverables to seeded/<Cxx>-<suffix>/, confirms them (tools/confirm_seed.py) and removes the worktree
pid=$1; suf=$2; out=$3; wt=$4
sd=$pid-$suf
mkdir -p /verif/seeded/$sd
cp $out/patch.diff $out/demo.py $out/notes.md /verif/seeded/$sd/ 2>/dev/null
needs=$(grep -i -A6 "needed\|manifest" $out/notes.md | head -12 | tr '\n' ' ' | cut -c1-600)
/opt/veriftools/pyvenv/bin/python /verif/tools/confirm_seed.py $sd $pid "see notes.md; $needs"
[ -n "$wt" ] && git -C /repo worktree remove --force $wt
