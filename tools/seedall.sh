#!/bin/bash
# usage: tools/seedall.sh [jobs]  -- run the quick check against every seeded change (scratch copies); prints one line per seed
cd "$(dirname "$0")/.."
ls seeded | xargs -P ${1:-4} -I{} bash -c 'id={}; pid=${id%%-*}; out=$(tools/seedcheck.sh $pid /verif/seeded/$id/patch.diff --tier quick 2>&1 | grep -E "^(VIOLATION|UNDECIDED|CHECKER|seedcheck)" | cut -c1-220 | tr "\n" "|"); echo "$id: $out"'
