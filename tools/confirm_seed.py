#!/usr/bin/env python3
"""Confirm a seeded change: tools/confirm_seed.py <seed dir> <property id> "<needs>"

Applies seeded/<dir>/patch.diff to a scratch copy of /repo (outside /repo and /verif), runs the
baseline suite there (must still report the 171 passes), runs demo.py on /repo (must exit 0) and on
the scratch copy (must exit 1), runs ./check <id> --repo <scratch> (quick and, if that passes,
thorough) and writes seeded/<dir>/meta.json.  The scratch copy is removed afterwards.
"""
import json
import os
import re
import shutil
import subprocess
import sys
import tempfile
import time

VERIF = os.path.dirname(os.path.dirname(os.path.abspath(__file__)))


def sh(cmd, **kw):
  return subprocess.run(cmd, shell=True, capture_output=True, text=True, **kw)


def main():
  sd, pid = sys.argv[1], sys.argv[2]
  needs = sys.argv[3] if len(sys.argv) > 3 else ''
  sdir = os.path.join(VERIF, 'seeded', sd)
  patch = os.path.join(sdir, 'patch.diff')
  d = tempfile.mkdtemp(prefix='seedconf_%s_' % sd)
  meta = dict(property=pid, seed=sd, needs=needs, confirmed_at=time.strftime('%Y-%m-%d %H:%M:%S'))
  try:
    sh('rsync -a --exclude .git /repo/ %s/' % d)
    r = sh('cd %s && patch -p1 -s < %s' % (d, patch))
    meta['patch_applies'] = (r.returncode == 0)
    files = re.findall(r'^\+\+\+ b/(\S+)', open(patch).read(), re.M)
    meta['files_changed'] = files
    r = sh('cd %s && /venv/bin/python -m pytest -q -p no:cacheprovider --timeout=900 --continue-on-collection-errors 2>&1 | tail -1' % d)
    meta['baseline_on_changed_tree'] = r.stdout.strip()
    meta['baseline_ok'] = '171 passed' in r.stdout and 'failed' not in r.stdout
    r0 = sh('/venv/bin/python %s/demo.py /repo' % sdir, timeout=3600)
    r1 = sh('/venv/bin/python %s/demo.py %s' % (sdir, d), timeout=3600)
    meta['demo_exit_unchanged'] = r0.returncode
    meta['demo_exit_changed'] = r1.returncode
    meta['demo_output_changed_tail'] = (r1.stdout + r1.stderr)[-600:]
    meta['ran'] = ['rsync /repo -> scratch; patch -p1 < patch.diff',
                   'baseline pytest on scratch', 'demo.py /repo', 'demo.py <scratch>',
                   './check %s --repo <scratch> [--tier quick|thorough]' % pid]
    for tier in ('quick', 'thorough'):
      t0 = time.time()
      r = sh('%s/check %s --repo %s --tier %s' % (VERIF, pid, d, tier), timeout=7200)
      lines = [l for l in r.stdout.splitlines() if l.startswith(('VIOLATION', 'UNDECIDED', 'CHECKER', 'KNOWN'))]
      meta['check_' + tier] = dict(exit=r.returncode, seconds=round(time.time() - t0, 1), lines=[l[:300] for l in lines[:4]])
      if r.returncode == 1:
        break
    meta['detected'] = any(meta.get('check_' + t, {}).get('exit') == 1 for t in ('quick', 'thorough'))
    meta['confirmed'] = bool(meta['patch_applies'] and meta['baseline_ok'] and r0.returncode == 0 and r1.returncode == 1)
  finally:
    shutil.rmtree(d, ignore_errors=True)
  json.dump(meta, open(os.path.join(sdir, 'meta.json'), 'w'), indent=1)
  print(json.dumps({k: meta[k] for k in ('seed', 'confirmed', 'detected', 'baseline_on_changed_tree', 'demo_exit_unchanged', 'demo_exit_changed')}))
  for t in ('quick', 'thorough'):
    if 'check_' + t in meta:
      print(t, meta['check_' + t])


if __name__ == '__main__':
  main()
