#!/opt/veriftools/pyvenv/bin/python
"""Runs the quick check against every seeded change (scratch copies outside /repo and /verif) and records, per seed,
the exit code, whether a proof obligation failed (which), and whether the native stage produced a witness.
Writes seeded/MATRIX.json and prints a markdown table.  usage: tools/seedmatrix.py [jobs [seed-name-substring ...]]"""
import concurrent.futures as cf
import json
import os
import re
import shutil
import subprocess
import sys
import tempfile

VERIF = os.path.dirname(os.path.dirname(os.path.abspath(__file__)))


def one(sd):
  pid = sd.split('-')[0]
  d = tempfile.mkdtemp(prefix='seedmx_%s_' % sd)
  try:
    subprocess.run('rsync -a --exclude .git /repo/ %s/ && cd %s && patch -p1 -s < %s/seeded/%s/patch.diff' % (d, d, VERIF, sd), shell=True, check=True)
    r = subprocess.run([os.path.join(VERIF, 'check'), pid, '--repo', d, '--tier', 'quick'], capture_output=True, text=True)
    out = r.stdout
    viol = [l for l in out.splitlines() if l.startswith('VIOLATION')]
    failed = re.findall(r'failed obligation: (\S+) \[(\w+)\]', out) + re.findall(r'obligation=(\S+) status=(\w+)', out)
    und = [l for l in out.splitlines() if l.startswith(('UNDECIDED', 'CHECKER'))]
    wit = [l.strip()[9:] for l in out.splitlines() if l.strip().startswith('witness:')]
    meta = json.load(open(os.path.join(VERIF, 'seeded', sd, 'meta.json')))
    return dict(seed=sd, property=pid, files=meta.get('files_changed', []), exit=r.returncode, violations=len(viol),
                failed_obligations=sorted({n.split('::')[-1] for n, _ in failed})[:6], native_witness=bool(wit),
                witness=(wit[0][:200] if wit else ''), other=[u[:160] for u in und[:2]])
  finally:
    shutil.rmtree(d, ignore_errors=True)


def main():
  jobs = int(sys.argv[1]) if len(sys.argv) > 1 else 4
  seeds = sorted(x for x in os.listdir(os.path.join(VERIF, 'seeded')) if os.path.isdir(os.path.join(VERIF, 'seeded', x)))
  only = sys.argv[2:]        # optional: substrings; only matching seeds are re-run, the other rows are kept from MATRIX.json
  mpath = os.path.join(VERIF, 'seeded', 'MATRIX.json')
  old = {r['seed']: r for r in (json.load(open(mpath)) if os.path.exists(mpath) else [])}
  todo = [x for x in seeds if not only or any(o in x for o in only) or x not in old]
  with cf.ThreadPoolExecutor(jobs) as ex:
    new = {r['seed']: r for r in ex.map(one, todo)}
  rows = [new.get(x) or old[x] for x in seeds]
  json.dump(rows, open(mpath, 'w'), indent=1)
  print('| seed | files changed | exit | proof obligations that fail | native witness |')
  print('|---|---|---|---|---|')
  for r in rows:
    print('| %s | %s | %d | %s | %s |' % (r['seed'], ', '.join(os.path.basename(f) for f in r['files']), r['exit'],
                                          ', '.join(r['failed_obligations'][:3]) or '–', 'yes' if r['native_witness'] else 'no'))


if __name__ == '__main__':
  main()
