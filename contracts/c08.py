"""C08 — no cached solver survives a mutation of anything the solver reads.

Typestate contracts over the real C++ (clang AST of typegraph.cc / typegraph.h / cfg.cc, re-read on
every run).  Ghost state per Program: `inv` = "InvalidateSolver() has been called and no solver has
been created since".  Statement semantics, derived mechanically from the AST:

  call InvalidateSolver()            -> inv := true
  call GetSolver() / Solver::Solve   -> inv := false        (a live solver may exist afterwards)
  mutation point                     -> obligation: inv     (else a live solver would see the change)
  call g(...)                        -> obligation: g's precondition; inv := g's postcondition

Contracts (one line per function, see HELPERS): every function has `requires true` except the listed
private helpers, which have `requires inv` ("the caller has invalidated"); postconditions
(`ensures inv` on every normal exit / may create a solver) are inferred bottom-up and re-checked.
Branch conditions are nondeterministic (sound for a must-invalidate obligation).
"""
import collections
import concurrent.futures
import json
import os
import re
import subprocess

import z3

from engine import cxxfront
from engine.core import Obligation, Theory
from engine.source import ContractMisfit, Unsupported

TG_CC = 'pytype/typegraph/typegraph.cc'
TG_H = 'pytype/typegraph/typegraph.h'
CFG_CC = 'pytype/typegraph/cfg.cc'
SOLVER_CC = 'pytype/typegraph/solver.cc'
NS = 'devtools_python_typegraph'

# solver-observable data members (the solver and CanHaveCombination read them, directly or through
# the inline accessors of typegraph.h); cross-checked against solver.cc on every run
OBSERVABLE = {
    'CFGNode': {'incoming_', 'outgoing_', 'bindings_', 'condition_', 'id_', 'name_'},
    'Binding': {'origins_', 'node_to_origin_', 'variable_', 'data_', 'id_'},
    'Variable': {'bindings_', 'cfg_node_to_bindings_', 'data_to_binding_', 'id_'},
    'Origin': {'source_sets', 'where'},
}
# every data member of the graph classes (typegraph.h).  A member that is not listed is state the protocol knows nothing
# about (e.g. a cache filled by a const accessor that outlives InvalidateSolver()): a failed frame obligation.
DECLARED_FIELDS = {
    'Variable': {'bindings_', 'cfg_node_to_bindings_', 'data_to_binding_', 'id_', 'program_'},
    'Binding': {'data_', 'id_', 'node_to_origin_', 'origins_', 'program_', 'variable_'},
    'CFGNode': {'backward_reachability_', 'bindings_', 'condition_', 'id_', 'incoming_', 'name_', 'outgoing_', 'program_'},
    'Origin': {'source_sets', 'where'},
    'Program': {'backward_reachability_', 'cfg_nodes_', 'default_data_', 'entrypoint_', 'next_binding_id_', 'next_variable_id_',
                'solver_', 'solver_metrics_', 'variables_'},
}
MUTATING_METHODS = {'push_back', 'emplace', 'emplace_back', 'insert', 'erase', 'clear', 'resize', 'pop_back',
                    'swap', 'assign', 'reset'}
REACHABILITY_MUTATORS = {'add_node', 'add_connection'}
# private helpers that mutate without invalidating: `requires inv` (caller has invalidated)
HELPERS = {
    'Binding::FindOrAddOrigin', 'Origin::AddSourceSet', 'Variable::RegisterBindingAtNode', 'CFGNode::RegisterBinding',
}
# queries in which operator[] on an observable map is guarded by ContainsKey (does not insert): stated assumption
GUARDED_INDEX = {'Variable::Prune'}
CONSTRUCTOR_KINDS = ('CXXConstructorDecl',)


def _docs(repo, relpath, flt):
  return cxxfront.clang_ast(repo, relpath, flt)


def _short(qual):
  return qual.replace(NS + '::', '')


class Fn:
  def __init__(self, name, node, file):
    self.name = name          # Class::method or free function name
    self.node = node
    self.file = file
    self.line = node.get('loc', {}).get('line') or node.get('range', {}).get('begin', {}).get('line')
    self.requires_inv = name in HELPERS
    self.ends_inv = False
    self.creates_solver = False
    self.violations = []      # (line, what) found when analysed from its own precondition


def collect(repo):
  """All function definitions of typegraph.cc/.h (namespace filter) and cfg.cc (per function)."""
  fns = {}
  decl2name = {}

  def add(d, file, cls=None):
    k = d.get('kind')
    if k in ('CXXRecordDecl',):
      for c in d.get('inner', []):
        add(c, file, d.get('name'))
      return
    if k in ('NamespaceDecl',):
      for c in d.get('inner', []):
        add(c, file, cls)
      return
    if k not in ('CXXMethodDecl', 'FunctionDecl', 'CXXConstructorDecl'):
      return
    parent = cls
    name = d.get('name')
    if parent is None and k != 'FunctionDecl':
      parent = _parent_of(d, decl2class)
    q = '%s::%s' % (parent, name) if parent else name
    decl2name[d['id']] = (q, d.get('type', {}).get('qualType', ''))
    if d.get('previousDecl'):
      prev = decl2name.get(d['previousDecl'])
      if prev:
        q = prev[0]
        decl2name[d['id']] = (q, prev[1])
    if any(c.get('kind') == 'CompoundStmt' for c in d.get('inner', [])):
      key = (q, d.get('type', {}).get('qualType', ''))
      fns[key] = Fn(q, d, file)

  decl2class = {}
  docs = _docs(repo, TG_CC, NS + '::')
  # first pass: class of every in-class declaration id
  def index_classes(d, cls=None):
    if d.get('kind') == 'CXXRecordDecl':
      for c in d.get('inner', []):
        index_classes(c, d.get('name'))
    elif d.get('kind') == 'NamespaceDecl':
      for c in d.get('inner', []):
        index_classes(c, cls)
    elif 'id' in d and cls:
      decl2class[d['id']] = cls
  for d in docs:
    index_classes(d)
  for d in docs:
    add(d, TG_CC)
  # cfg.cc: the unfiltered dump is 300 MB (Python.h), so a scratch copy whose body (everything after
  # the last #include) is wrapped in `namespace cfgcc_all { ... }` is dumped with one namespace filter.
  # The copy is made mechanically here on every run and lives outside /repo and /verif.
  text = open(os.path.join(repo, CFG_CC)).read()
  names = sorted(set(re.findall(r'^static [\w:<>\*& ]+?[\*& ](\w+)\(', text, re.M)))
  lines = text.splitlines(True)
  last_inc = max(i for i, l in enumerate(lines) if l.startswith('#include'))
  wrapped = ''.join(lines[:last_inc + 1]) + 'namespace cfgcc_all {\n' + ''.join(lines[last_inc + 1:]) + '\n}\n'
  import tempfile, shutil
  d = tempfile.mkdtemp(prefix='c08_cfgcc_')
  try:
    tgdir = os.path.join(repo, 'pytype', 'typegraph')
    scratch = os.path.join(d, 'cfg_wrapped.cc')
    open(scratch, 'w').write(wrapped)
    cmd = ['clang++', '-std=c++17', '-fsyntax-only', '-I' + tgdir, '-I' + cxxfront.PYINC, '-I' + cxxfront.PB11,
           '-Xclang', '-ast-dump=json', '-Xclang', '-ast-dump-filter=cfgcc_all::', scratch]
    p = subprocess.run(cmd, capture_output=True, text=True)
    dec = json.JSONDecoder()
    s_, i = p.stdout, 0
    while i < len(s_):
      while i < len(s_) and s_[i].isspace():
        i += 1
      if i >= len(s_):
        break
      dd, i = dec.raw_decode(s_, i)
      if dd.get('kind') == 'FunctionDecl':
        add(dd, CFG_CC)
  finally:
    shutil.rmtree(d, ignore_errors=True)
  return fns, decl2name, names


def _parent_of(d, decl2class):
  if d.get('previousDecl') in decl2class:
    return decl2class[d['previousDecl']]
  if d.get('parentDeclContextId'):
    return None
  return None


class Analysis:
  """inv-typestate over structured C++ statements."""

  def __init__(self, fns, decl2name):
    self.fns = fns
    self.decl2name = decl2name
    self.by_decl = {}
    for key, f in fns.items():
      self.by_decl[key] = f
    self.cur = None
    self.found = []

  def callee(self, n):
    """Resolve a call expression to one of our Fn (or a marker string)."""
    ref = None
    if n['kind'] == 'CXXMemberCallExpr':
      me = n['inner'][0]
      name = me.get('name')
      rid = me.get('referencedMemberDecl')
      if name in ('InvalidateSolver',):
        return 'INVALIDATE'
      if name in ('GetSolver', 'Solve', 'Solve_'):
        return 'SOLVER'
      if name in REACHABILITY_MUTATORS:
        return 'MUTATE:backward_reachability_.%s' % name
      if rid in self.decl2name:
        ref = self.decl2name[rid]
      else:
        # another translation unit (cfg.cc): declaration ids differ between clang runs, so
        # resolve by (class of the receiver, method name, number of arguments); overloads are joined
        base = me.get('inner', [{}])[0]
        bt = base.get('type', {}).get('qualType', '')
        nargs = len([a for a in n['inner'][1:] if a.get('kind') != 'CXXDefaultArgExpr'])
        for cls in ('Program', 'CFGNode', 'Variable', 'Binding', 'Origin'):
          if re.search(r'\b%s\b' % cls, bt):
            cands = [g for g in self.fns.values() if g.name == '%s::%s' % (cls, name)
                     and len([c for c in g.node.get('inner', []) if c.get('kind') == 'ParmVarDecl']) >= nargs]
            exact = [g for g in cands if len([c for c in g.node.get('inner', []) if c.get('kind') == 'ParmVarDecl']) == nargs]
            cands = exact or cands
            if len(cands) == 1:
              return cands[0]
            if cands:
              return cands
    elif n['kind'] == 'CallExpr':
      c = n['inner'][0]
      while c.get('kind') == 'ImplicitCastExpr':
        c = c['inner'][0]
      rd = c.get('referencedDecl', {})
      if rd.get('name') == 'InvalidateSolver':
        return 'INVALIDATE'
      if rd.get('id') in self.decl2name:
        ref = self.decl2name[rd['id']]
      elif rd.get('name'):
        for key, f in self.fns.items():
          if f.name == rd['name'] and f.file == CFG_CC:
            return f
    if ref is None:
      return None
    f = self.fns.get(ref)
    if f is None:
      # declaration known but no body seen (e.g. defined elsewhere): try by name
      cands = [g for (q, t), g in self.fns.items() if q == ref[0]]
      if len(cands) == 1:
        return cands[0]
      if cands:
        return cands   # overload set: join
    return f

  def mutation(self, n, this_class):
    """Is this expression node a mutation point of a solver-observable field?  Returns text or None."""
    k = n['kind']
    def field_of(e):
      while e.get('kind') in ('ImplicitCastExpr', 'ParenExpr', 'MaterializeTemporaryExpr'):
        e = e['inner'][0]
      if e.get('kind') == 'MemberExpr' and not e.get('name', '').endswith(')'):
        nm = e.get('name')
        base = e.get('inner', [{}])[0]
        bt = base.get('type', {}).get('qualType', '')
        cls = None
        for c in OBSERVABLE:
          if re.search(r'\b%s\b' % c, bt):
            cls = c
        if base.get('kind') == 'CXXThisExpr' or cls:
          cls = cls or this_class
          if cls in OBSERVABLE and nm in OBSERVABLE[cls]:
            return '%s::%s' % (cls, nm)
      return None
    if k in ('BinaryOperator', 'CompoundAssignOperator') and (n.get('opcode') == '=' or k == 'CompoundAssignOperator'):
      f = field_of(n['inner'][0])
      if f:
        return 'assignment to %s' % f
      l = n['inner'][0]
      if l.get('kind') == 'CXXOperatorCallExpr':
        f = field_of(l['inner'][1]) if len(l.get('inner', [])) > 1 else None
        if f:
          return 'store through %s[...]' % f
    if k == 'CXXOperatorCallExpr':
      c = n['inner'][0]
      while c.get('kind') == 'ImplicitCastExpr':
        c = c['inner'][0]
      opn = c.get('referencedDecl', {}).get('name')
      if opn == 'operator=' and len(n['inner']) > 1:
        f = field_of(n['inner'][1])
        if f:
          return 'assignment to %s' % f
        l = n['inner'][1]
        if l.get('kind') == 'CXXOperatorCallExpr' and len(l.get('inner', [])) > 1:
          f = field_of(l['inner'][1])
          if f:
            return 'store through %s[...]' % f
      if opn == 'operator[]' and len(n['inner']) > 1:
        f = field_of(n['inner'][1])
        bt = n['inner'][1].get('type', {}).get('qualType', '')
        if f and 'map' in bt and self.cur.name not in GUARDED_INDEX:
          return 'operator[] on map %s (may insert)' % f
    if k == 'CXXMemberCallExpr':
      me = n['inner'][0]
      if me.get('name') in MUTATING_METHODS:
        f = field_of(me['inner'][0])
        if f:
          return '%s.%s(...)' % (f, me['name'])
    if k == 'UnaryOperator' and n.get('opcode') in ('++', '--'):
      f = field_of(n['inner'][0])
      if f:
        return '%s%s' % (f, n['opcode'])
    return None

  def run_fn(self, f, start_inv):
    """Returns (ends_inv, creates_solver, violations) for f entered with inv = start_inv."""
    self.cur = f
    self.viol = []
    self.creates = False
    cls = f.name.split('::')[0] if '::' in f.name else None
    body = [c for c in f.node['inner'] if c.get('kind') == 'CompoundStmt'][0]
    exits = []
    out = self.stmt(body, start_inv, cls, exits)
    if out is not None:
      exits.append(out)
    ends = all(exits) if exits else True
    return ends, self.creates, self.viol

  def expr(self, n, inv, cls):
    """Evaluate calls/mutations inside an expression in evaluation order (children first)."""
    if not isinstance(n, dict) or 'kind' not in n:
      return inv
    if n['kind'] == 'LambdaExpr':
      return inv
    for c in n.get('inner', []):
      inv = self.expr(c, inv, cls)
    m = self.mutation(n, cls)
    if m:
      line = n.get('range', {}).get('begin', {}).get('line') or self.cur.line
      if not inv:
        self.viol.append((line, m))
    if n['kind'] in ('CXXMemberCallExpr', 'CallExpr'):
      g = self.callee(n)
      line = n.get('range', {}).get('begin', {}).get('line') or self.cur.line
      if g == 'INVALIDATE':
        return True
      if g == 'SOLVER':
        self.creates = True
        return False
      if isinstance(g, str) and g.startswith('MUTATE:'):
        if not inv:
          self.viol.append((line, g[7:]))
        return inv
      gs = g if isinstance(g, list) else ([g] if g is not None else [])
      for gg in gs:
        if gg.requires_inv and not inv:
          self.viol.append((line, 'call of %s, which mutates solver-visible state and requires an invalidated solver' % gg.name))
      if gs:
        if any(gg.creates_solver for gg in gs):
          self.creates = True
          inv = False if not all(gg.ends_inv for gg in gs) else inv
        if all(gg.ends_inv for gg in gs):
          inv = True
        elif any(gg.creates_solver for gg in gs):
          inv = False
    return inv

  def stmt(self, n, inv, cls, exits):
    """Returns inv after the statement, or None if control never continues."""
    if not isinstance(n, dict) or 'kind' not in n:
      return inv
    k = n['kind']
    if k == 'CompoundStmt':
      for c in n.get('inner', []):
        inv = self.stmt(c, inv, cls, exits)
        if inv is None:
          return None
      return inv
    if k == 'ReturnStmt':
      for c in n.get('inner', []):
        inv = self.expr(c, inv, cls)
      exits.append(inv)
      return None
    if k == 'IfStmt':
      inner = n['inner']
      idx = 0
      # optional init / condition variable come first
      conds = inner[:-1] if len(inner) == 2 else inner[:-2]
      # clang: [init?, cond, then, else?]; evaluate all non-statement leading parts
      parts = list(inner)
      then = els = None
      if n.get('hasElse'):
        els = parts.pop()
      then = parts.pop()
      for c in parts:
        inv = self.expr(c, inv, cls) if c.get('kind') not in ('DeclStmt',) else self.stmt(c, inv, cls, exits)
      a = self.stmt(then, inv, cls, exits)
      b = self.stmt(els, inv, cls, exits) if els is not None else inv
      outs = [x for x in (a, b) if x is not None]
      return all(outs) if outs else None
    if k in ('ForStmt', 'WhileStmt', 'CXXForRangeStmt', 'DoStmt'):
      parts = [c for c in n.get('inner', []) if isinstance(c, dict) and 'kind' in c]
      body = parts[-1] if k != 'DoStmt' else parts[0]
      heads = parts[:-1] if k != 'DoStmt' else parts[1:]
      for c in heads:
        inv = self.stmt(c, inv, cls, exits) if c['kind'].endswith('Stmt') else self.expr(c, inv, cls)
        if inv is None:
          return None
      # zero or more iterations: two rounds reach the fixpoint of this two-point lattice
      cur = inv
      for _ in range(2):
        o = self.stmt(body, cur, cls, exits)
        for c in heads:
          if o is not None and not c['kind'].endswith('Stmt'):
            o = self.expr(c, o, cls)
        nxt = cur and (o if o is not None else True)
        if nxt == cur:
          break
        cur = nxt
      return cur
    if k in ('BreakStmt', 'ContinueStmt', 'NullStmt'):
      return inv
    if k == 'DeclStmt':
      for v in n.get('inner', []):
        for c in v.get('inner', []):
          inv = self.expr(c, inv, cls)
      return inv
    if k == 'SwitchStmt' or k == 'CXXTryStmt':
      for c in n.get('inner', []):
        r = self.stmt(c, inv, cls, exits) if c.get('kind', '').endswith('Stmt') else self.expr(c, inv, cls)
        inv = inv and (r if r is not None else True)
      return inv
    if k in ('CaseStmt', 'DefaultStmt', 'CXXCatchStmt', 'LabelStmt', 'AttributedStmt'):
      for c in n.get('inner', []):
        r = self.stmt(c, inv, cls, exits) if c.get('kind', '').endswith('Stmt') else self.expr(c, inv, cls)
        if r is None:
          return None
        inv = r
      return inv
    return self.expr(n, inv, cls)


def analyse(repo):
  fns, decl2name, cfg_names = collect(repo)
  an = Analysis(fns, decl2name)
  # bottom-up summaries (ends_inv / creates_solver) to a fixpoint
  for _ in range(6):
    changed = False
    for f in fns.values():
      if f.node['kind'] in CONSTRUCTOR_KINDS:
        f.ends_inv, f.creates_solver = False, False
        continue
      ends, creates, _v = an.run_fn(f, f.requires_inv)
      if (ends, creates) != (f.ends_inv, f.creates_solver):
        f.ends_inv, f.creates_solver = ends, creates
        changed = True
    if not changed:
      break
  results = []
  for key, f in sorted(fns.items(), key=lambda kv: (kv[1].file, kv[1].name, kv[0][1])):
    if f.node['kind'] in CONSTRUCTOR_KINDS:
      continue   # a constructor initialises a new object: nothing the solver has seen
    ends, creates, viol = an.run_fn(f, f.requires_inv)
    results.append((f, key, viol))
  return results, fns, cfg_names


def observed_fields(repo):
  """Accessors/fields of the typegraph classes that solver.cc (and CanHaveCombination) read."""
  h = open(os.path.join(repo, TG_H)).read()
  acc = dict(re.findall(r'(\w+)\(\) const \{\s*return (?:this->)?(\w+_?);', h))
  s = open(os.path.join(repo, SOLVER_CC)).read()
  used = set(re.findall(r'(?:->|\.)(\w+)\(\)', s)) | set(re.findall(r'(?:->|\.)(\w+)\b(?!\()', s))
  fields = set()
  for u in used:
    if u in acc:
      fields.add(acc[u])
    elif u in ('source_sets', 'where'):
      fields.add(u)
  return fields


def build():
  T = Theory('C08')
  T.assumptions += [
      'solver-observable fields are those listed in OBSERVABLE (cross-checked: every field solver.cc reads through an accessor is listed)',
      'Variable::Prune: cfg_node_to_bindings_[node] under a ContainsKey guard does not insert',
      'constructors only initialise objects no solver has seen; Program owns all objects (A-MEM)',
      'branch conditions are nondeterministic; loops run zero or more times (sound over-approximation)',
      'NOT decided: memoised answers inside one solver lifetime (provisional memo entries, path cache) — functional correctness of the search (C07)',
      'calls into the Python C-API / STL do not call back into the typegraph',
  ]
  return T


def extra_obligations(repo):
  results, fns, cfg_names = analyse(repo)
  out = []
  if len(fns) < 60 or len(cfg_names) < 40:
    raise ContractMisfit('only %d function bodies / %d cfg.cc functions extracted' % (len(fns), len(cfg_names)))
  n = collections.Counter()
  for f, key, viol in results:
    n[f.name] += 1
    suffix = '' if n[f.name] == 1 else '#%d' % n[f.name]
    name = 'C08/%s::%s%s/typestate#1' % (f.file, f.name, suffix)
    goal = z3.BoolVal(not viol)
    pre = 'requires inv' if f.requires_inv else 'requires true'
    o = Obligation(name, 'typestate', [], goal, line=f.line,
                   detail='%s (%s; ensures %s%s): every mutation of solver-visible state happens after InvalidateSolver() with no solver created in between%s' % (
                       f.name, pre, 'inv' if f.ends_inv else 'true', ', may create a solver' if f.creates_solver else '',
                       ''.join('; VIOLATED at line %s: %s' % v for v in viol)))
    o.owner = '%s::%s' % (f.file, f.name)
    o.witness_hint = [dict(function=f.name, line=l, what=w) for l, w in viol]
    out.append(o)
  # helpers named in the contract must still exist
  have = {f.name for f in fns.values()}
  o = Obligation('C08/%s/frame#helpers' % TG_CC, 'frame', [], z3.BoolVal(HELPERS <= have),
                 detail='helpers with `requires inv` exist: missing %s' % sorted(HELPERS - have))
  o.owner = TG_CC
  o.undecided_if_no_witness = True
  out.append(o)
  for cls, want in sorted(DECLARED_FIELDS.items()):
    have_f, mut = set(), set()
    for d in _docs(repo, TG_CC, NS + '::' + cls):
      if d.get('kind') == 'CXXRecordDecl' and d.get('name') == cls and d.get('completeDefinition'):
        for c in d.get('inner', []):
          if c.get('kind') == 'FieldDecl':
            have_f.add(c['name'])
            if c.get('mutable'):
              mut.add(c['name'])
    extra = sorted(have_f - want)
    o = Obligation('C08/%s::%s/frame#fields' % (TG_H, cls), 'frame', [], z3.BoolVal(bool(have_f) and not extra and not mut), 
                   detail='data members of %s are the ones the invalidation protocol accounts for (new: %s; mutable: %s)' % (cls, extra, sorted(mut)))
    o.owner = '%s::%s' % (TG_H, cls)
    o.undecided_if_no_witness = True
    out.append(o)
  obs = observed_fields(repo)
  allobs = set().union(*OBSERVABLE.values())
  o = Obligation('C08/%s/frame#observable' % SOLVER_CC, 'frame', [], z3.BoolVal(obs <= allobs),
                 detail='every field solver.cc reads through typegraph.h accessors is declared observable: extra %s' % sorted(obs - allobs))
  o.owner = SOLVER_CC
  o.undecided_if_no_witness = True
  out.append(o)
  # C09 glue: argument order of the reachability calls (edges are registered backwards)
  txt = open(os.path.join(repo, TG_CC)).read()
  pats = [('ConnectTo registers the edge backwards', r'backward_reachability_->add_connection\(\s*node->id\(\)\s*,\s*this->id\(\)\s*\)'),
          ('Program::is_reachable queries backwards', r'backward_reachability_->is_reachable\(\s*dst->id\(\)\s*,\s*src->id\(\)\s*\)')]
  for what, pat in pats:
    o = Obligation('C08/%s/frame#%s' % (TG_CC, what.split()[0]), 'frame', [], z3.BoolVal(bool(re.search(pat, txt))), detail=what)
    o.owner = TG_CC
    out.append(o)
  return out


NATIVE_IN_QUICK = True
SURROUND = ['solver.cc internal caches (provisional memo entries, path-cache trie): functional correctness of the search, not decided',
            'pybind/CPython glue other than call structure']
MUTANTS = [
    dict(name='f1_reverted', file=TG_CC,
         old="Origin* Binding::AddOrigin(CFGNode* node, const SourceSet& source_set) {\n  program_->InvalidateSolver();\n",
         new="Origin* Binding::AddOrigin(CFGNode* node, const SourceSet& source_set) {\n"),
    dict(name='f2_reverted', file=TG_H,
         old="    program_->InvalidateSolver();\n    this->condition_ = condition;", new="    this->condition_ = condition;"),
    dict(name='connect_to_no_invalidate', file=TG_CC,
         old="  program_->InvalidateSolver();\n  node->incoming_.push_back(this);", new="  node->incoming_.push_back(this);"),
    dict(name='new_node_no_invalidate', file=TG_CC,
         old="  // Count the number of nodes so far and use that as ID\n  InvalidateSolver();\n", new=""),
    dict(name='add_binding_no_invalidate', file=TG_CC,
         old="    LOG(DEBUG) << \"Adding choice to Variable \" << id_;\n    program_->InvalidateSolver();\n",
         new="    LOG(DEBUG) << \"Adding choice to Variable \" << id_;\n"),
    dict(name='invalidate_after_mutation', file=TG_CC,
         old="  program_->InvalidateSolver();\n  node->incoming_.push_back(this);\n  this->outgoing_.push_back(node);\n",
         new="  node->incoming_.push_back(this);\n  this->outgoing_.push_back(node);\n  program_->InvalidateSolver();\n",
         expect=1),
    dict(name='query_between_invalidate_and_mutation', file=TG_CC,
         old="Origin* Binding::AddOrigin(CFGNode* node) {\n  program_->InvalidateSolver();\n",
         new="Origin* Binding::AddOrigin(CFGNode* node) {\n  program_->InvalidateSolver();\n  if (IsVisible(node)) { LOG(DEBUG) << \"visible\"; }\n"),
]
