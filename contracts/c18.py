"""C18 — flow conditions and block-state merging preserve meaning (rewrite engine).

Contracts on pytype/rewrite/flow/{conditions,variables,state}.py.  DESIGN.md section 3, C18.
"""
import collections

import z3

from engine import sorts as S
from engine.core import Contract, Loop, Theory
from engine.values import V, Builtin

COND_PY = 'pytype/rewrite/flow/conditions.py'
VARS_PY = 'pytype/rewrite/flow/variables.py'
STATE_PY = 'pytype/rewrite/flow/state.py'


class CSetSort(S.Sort):
  """frozenset[Condition] stored inside a Condition: uninterpreted + mem/mk."""
  name = 'CSet'
  flat = True

  def __init__(self):
    self._z = z3.DeclareSort('CSet')

  def z3(self):
    return self._z


def build():
  T = Theory('C18')
  CS = CSetSort()
  d = z3.Datatype('Cond')
  d.declare('_True')
  d.declare('_False')
  d.declare('Atom', ('id', z3.IntSort()))
  d.declare('_Not', ('condition', d))
  d.declare('_And', ('conditions', CS.z3()))
  d.declare('_Or', ('conditions_or', CS.z3()))
  Z = d.create()
  ctors = collections.OrderedDict([
      ('_True', (0, [])), ('_False', (1, [])), ('Atom', (2, ['id'])),
      ('_Not', (3, ['condition'])), ('_And', (4, ['conditions'])),
      ('_Or', (5, ['conditions']))])
  Cond = S.Adt('Cond', Z, ctors, {
      ('Atom', 'id'): S.INT, ('_Not', 'condition'): None,
      ('_And', 'conditions'): CS, ('_Or', 'conditions'): CS})
  Cond.field_sorts[('_Not', 'condition')] = Cond
  T.sorts['Cond'] = Cond
  for cn in ('_True', '_False', '_Not', '_And', '_Or'):
    T.bind_adt(COND_PY, cn, Cond, cn)
  # abstract classes: bound without constructor (isinstance only)
  T.bind_adt(COND_PY, 'Condition', Cond, 'ABSTRACT')
  T.bind_adt(COND_PY, '_Composite', Cond, 'ABSTRACT')

  mem = z3.Function('mem', CS.z3(), Z, z3.BoolSort())
  mk = z3.Function('mk', z3.ArraySort(Z, z3.BoolSort()), CS.z3())
  sem = z3.Function('sem', Z, z3.BoolSort())   # one arbitrary (Skolem) valuation
  x = z3.Const('x', Z)
  c = z3.Const('c', Z)
  a = z3.Const('a', z3.ArraySort(Z, z3.BoolSort()))
  T.axioms += [
      z3.ForAll([a, c], mem(mk(a), c) == a[c]),
      sem(Z._True), z3.Not(sem(Z._False)),
      z3.ForAll([x], z3.Implies(Z.is__Not(x), sem(x) == z3.Not(sem(Z.condition(x))))),
      z3.ForAll([x], z3.Implies(Z.is__And(x), sem(x) == z3.ForAll(
          [c], z3.Implies(mem(Z.conditions(x), c), sem(c))))),
      z3.ForAll([x], z3.Implies(Z.is__Or(x), sem(x) == z3.Exists(
          [c], z3.And(mem(Z.conditions_or(x), c), sem(c))))),
  ]
  SetCond = S.SetOf(Cond)
  T.coercions[(SetCond.name, CS.name)] = lambda ex, v: V(CS, mk(v.t))
  T.method_models[(CS.name, '__contains__')] = (
      lambda ex, recv, args, kw: V(S.BOOL, mem(recv.t, ex.coerce(args[0], Cond).t)))
  T.symbols['sem'] = Builtin('sem', lambda ex, a, k, n: V(S.BOOL, sem(ex.coerce(a[0], Cond).t)), needs_ex=True)
  T.assumptions += [
      'A-ADT: Condition has exactly the subclasses _True,_False,_Not,_And,_Or plus opaque atoms (modelled by the Atom constructor); '
      'TRUE/FALSE are the only instances of _True/_False so `is` on them equals `==`',
      'A-SEM: sem is one arbitrary valuation of atoms extended to terms by the axioms for not/and/or (Skolemised forall-sigma)',
      'frozenset stored in _And/_Or is an uninterpreted CSet with mem(mk(a),c)=a[c]; extensionality omitted (costs completeness only)',
  ]

  SeqCond = S.Seq(Cond)
  T.add(Contract(
      COND_PY, '_Not.make', collections.OrderedDict(cls=('cls', '_Not'), condition=Cond),
      ensures=['sem(result) == (not sem(condition))'],
      result=Cond, instance={'cls': '_Not'}))
  inv = [
      'all(any(args[k] == c for k in range(i)) for c in conditions)',
      'all(implies(args[k] != cls._IGNORE, args[k] in conditions) for k in range(i))',
      'all(args[k] != cls._ACCEPT for k in range(i))',
  ]
  for cn, agg in (('_And', 'all'), ('_Or', 'any')):
    T.add(Contract(
        COND_PY, '_Composite.make', collections.OrderedDict(cls=('cls', cn), args=SeqCond),
        ensures=['sem(result) == %s(sem(a) for a in args)' % agg],
        loops={0: Loop(inv, index='i')},
        result=Cond, instance={'cls': cn}, ghost={'conditions': SetCond}))

  # variables.py
  Val = S.Uninterp('Val')
  Binding = S.Rec('Binding', [('value', Val), ('condition', Cond)])
  SeqB = S.Seq(Binding)
  Variable = S.Rec('Variable', [('bindings', SeqB), ('name', S.Opt(S.STR))])
  T.sorts.update(Val=Val, Binding=Binding, Variable=Variable)
  T.bind_rec(VARS_PY, 'Binding', Binding)
  T.bind_rec(VARS_PY, 'Variable', Variable)
  T.add(Contract(
      VARS_PY, 'Variable.with_condition',
      collections.OrderedDict(self=Variable, condition=Cond),
      ensures=[
          'len(result.bindings) == len(self.bindings)',
          'result.name == self.name',
          'all(result.bindings[k].value == self.bindings[k].value for k in range(len(self.bindings)))',
          'all(sem(result.bindings[k].condition) == (sem(self.bindings[k].condition) and sem(condition))'
          ' for k in range(len(self.bindings)))',
      ],
      loops={0: Loop([
          'len(new_bindings) == i',
          'all(new_bindings[k].value == self.bindings[k].value for k in range(i))',
          'all(sem(new_bindings[k].condition) == (sem(self.bindings[k].condition) and sem(condition)) for k in range(i))',
      ], index='i')},
      result=Variable, ghost={'new_bindings': SeqB}))
  _state_contracts(T, Cond, Val, Binding, SeqB, Variable, sem)
  return T


def _state_contracts(T, Cond, Val, Binding, SeqB, Variable, sem):
  """BlockState: lazily applied block condition (state.py)."""
  Locals = S.DictOf(S.STR, Variable)
  Names = S.SetOf(S.STR)
  T.bind_obj(STATE_PY, 'BlockState', collections.OrderedDict(
      _locals=Locals, _condition=Cond, _locals_with_block_condition=Names))
  T.inline.add((STATE_PY, 'BlockState.__init__'))

  VZ, ValZ = Variable.z3(), Val.z3()
  hvp_f = z3.Function('hvp', VZ, ValZ, z3.IntSort(), z3.BoolSort())
  hvanyp_f = z3.Function('hvanyp', VZ, ValZ, z3.IntSort(), z3.BoolSort())
  anysem_f = z3.Function('anysem', VZ, z3.BoolSort())
  wfv_f = z3.Function('wfv', VZ, z3.BoolSort())
  _var = z3.Const('var', VZ)
  _v = z3.Const('v', ValZ)
  _m = z3.Const('m', z3.IntSort())
  _k = z3.Const('k', z3.IntSort())
  _j = z3.Const('j', z3.IntSort())
  _bs = Variable.field('bindings', _var)
  _b = SeqB.at(_bs, _k)
  T.axioms += [
      # definitional axioms of the spec functions (triggered on their applications)
      z3.ForAll([_var, _v, _m], hvp_f(_var, _v, _m) == z3.Exists([_k], z3.And(
          0 <= _k, _k < _m, Binding.field('value', _b) == _v, sem(Binding.field('condition', _b)))),
                patterns=[hvp_f(_var, _v, _m)]),
      z3.ForAll([_var, _v, _m], hvanyp_f(_var, _v, _m) == z3.Exists([_k], z3.And(
          0 <= _k, _k < _m, Binding.field('value', _b) == _v)), patterns=[hvanyp_f(_var, _v, _m)]),
      z3.ForAll([_var], anysem_f(_var) == z3.Exists([_k], z3.And(
          0 <= _k, _k < SeqB.len(_bs), sem(Binding.field('condition', _b)))), patterns=[anysem_f(_var)]),
      z3.ForAll([_var], wfv_f(_var) == z3.ForAll([_j, _k], z3.Implies(
          z3.And(0 <= _j, _j < _k, _k < SeqB.len(_bs)),
          Binding.field('value', SeqB.at(_bs, _j)) != Binding.field('value', _b))), patterns=[wfv_f(_var)]),
  ]

  # derived facts (consequences of the definitions above; proved as lemmas on every run)
  T.lemmas += [
      ('hvp_implies_hvanyp', z3.ForAll([_var, _v, _m], z3.Implies(hvp_f(_var, _v, _m), hvanyp_f(_var, _v, _m)),
                                       patterns=[hvp_f(_var, _v, _m)])),
  ]

  def hv(var_t, v_t, upto=None):
    """some binding of the variable has value v and a condition true under sigma."""
    bs = Variable.field('bindings', var_t)
    return hvp_f(var_t, v_t, SeqB.len(bs) if upto is None else upto)

  def has_val(st, x_t, v_t):
    loc = st.fields['_locals'].t
    lw = st.fields['_locals_with_block_condition'].t
    return z3.And(Locals.has(loc, x_t), hv(Locals.get(loc, x_t), v_t),
                  z3.Implies(lw[x_t], sem(st.fields['_condition'].t)))

  def implies_cond(var_t, c_t):
    return z3.Implies(anysem_f(var_t), c_t)

  def inv_I(st):
    loc = st.fields['_locals'].t
    lw = st.fields['_locals_with_block_condition'].t
    x = S.STR.fresh('x')
    return z3.And(
        z3.ForAll([x], z3.Implies(lw[x], Locals.has(loc, x))),
        z3.ForAll([x], z3.Implies(
            z3.And(Locals.has(loc, x), z3.Not(lw[x])),
            implies_cond(Locals.get(loc, x), sem(st.fields['_condition'].t)))))

  def wfv(var_t):
    return wfv_f(var_t)

  def wf_state(st):
    loc = st.fields['_locals'].t
    x = S.STR.fresh('x')
    return z3.ForAll([x], z3.Implies(Locals.has(loc, x), wfv(Locals.get(loc, x))))

  def restricted(v2, v1, c_t):
    k = z3.FreshConst(z3.IntSort(), 'k')
    b2 = Variable.field('bindings', v2)
    b1 = Variable.field('bindings', v1)
    return z3.And(
        SeqB.len(b2) == SeqB.len(b1),
        z3.ForAll([k], z3.Implies(z3.And(0 <= k, k < SeqB.len(b1)), z3.And(
            Binding.field('value', SeqB.at(b2, k)) == Binding.field('value', SeqB.at(b1, k)),
            sem(Binding.field('condition', SeqB.at(b2, k))) == z3.And(
                sem(Binding.field('condition', SeqB.at(b1, k))), c_t)))))

  def hvany(var_t, v_t, upto=None):
    bs = Variable.field('bindings', var_t)
    return hvanyp_f(var_t, v_t, SeqB.len(bs) if upto is None else upto)

  B = lambda n, f: Builtin(n, f, needs_ex=True)
  T.symbols['hvp'] = B('hvp', lambda ex, a, k, n: V(S.BOOL, hv(a[0].t, ex.coerce(a[1], Val).t, upto=ex.as_int(a[2]))))
  T.symbols['hvany'] = B('hvany', lambda ex, a, k, n: V(S.BOOL, hvany(a[0].t, ex.coerce(a[1], Val).t)))
  T.symbols['hvanyp'] = B('hvanyp', lambda ex, a, k, n: V(S.BOOL, hvany(a[0].t, ex.coerce(a[1], Val).t, upto=ex.as_int(a[2]))))
  T.symbols['hv'] = B('hv', lambda ex, a, k, n: V(S.BOOL, hv(a[0].t, ex.coerce(a[1], Val).t)))
  T.symbols['has_val'] = B('has_val', lambda ex, a, k, n: V(S.BOOL, has_val(a[0], ex.coerce(a[1], S.STR).t, a[2].t)))
  T.symbols['I'] = B('I', lambda ex, a, k, n: V(S.BOOL, inv_I(a[0])))
  T.symbols['wfv'] = B('wfv', lambda ex, a, k, n: V(S.BOOL, wfv(a[0].t)))
  T.symbols['wf_state'] = B('wf_state', lambda ex, a, k, n: V(S.BOOL, wf_state(a[0])))
  T.symbols['implies_cond'] = B('implies_cond', lambda ex, a, k, n: V(S.BOOL, implies_cond(a[0].t, ex.truth(a[1]))))
  T.symbols['restricted'] = B('restricted', lambda ex, a, k, n: V(S.BOOL, restricted(a[0].t, a[1].t, ex.truth(a[2]))))

  self_obj = ('obj', 'BlockState')
  T.add(Contract(
      STATE_PY, 'BlockState.store_local',
      collections.OrderedDict(self=self_obj, name=S.STR, var=Variable),
      requires=['I(self)'],
      ensures=[
          'I(self)',
          'all(all(has_val(self, x, v) == ite(x == name, hv(var, v) and sem(self._condition), has_val(old(self), x, v))'
          ' for v in every("Val")) for x in every("Str"))',
          'self._condition == old(self._condition)',
      ]))
  T.add(Contract(
      STATE_PY, 'BlockState.load_local',
      collections.OrderedDict(self=self_obj, name=S.STR),
      requires=['name in self._locals'],
      ensures=['result.bindings == self._locals[name].bindings', 'result.name == name'],
      result=Variable))
  T.inline.add((VARS_PY, 'Variable.with_name'))
  T.add(Contract(
      STATE_PY, 'BlockState.with_condition',
      collections.OrderedDict(self=self_obj, condition=Cond),
      requires=['I(self)'],
      ensures=[
          'I(result)',
          'all(all(has_val(result, x, v) == (has_val(self, x, v) and sem(old(condition)))'
          ' for v in every("Val")) for x in every("Str"))',
          'sem(result._condition) == (sem(self._condition) and sem(old(condition)))',
          # frame: self is not modified
          'self._locals == old(self._locals)', 'self._condition == old(self._condition)',
          'self._locals_with_block_condition == old(self._locals_with_block_condition)',
          # ownership: the new state shares no mutable container with self
          'fresh(result._locals) and fresh(result._locals_with_block_condition)',
      ],
      loops={0: Loop([
          'all((x in new_locals) == any(items[k][0] == x for k in range(i)) for x in every("Str"))',
          'all(implies(x in new_locals and x in self._locals_with_block_condition, new_locals[x] == self._locals[x]) for x in every("Str"))',
          'all(implies(x in new_locals and x not in self._locals_with_block_condition,'
          ' restricted(new_locals[x], self._locals[x], sem(condition))) for x in every("Str"))',
          'sem(condition) == (sem(self._condition) and sem(old(condition)))',
          'self._locals == old(self._locals) and self._condition == old(self._condition)'
          ' and self._locals_with_block_condition == old(self._locals_with_block_condition)',
      ], index='i', seq='items')},
      ghost={'new_locals': Locals}))
  _merge_contracts(T, Cond, Val, Variable, Locals, Names, self_obj)


def _merge_contracts(T, Cond, Val, Variable, Locals, Names, self_obj):
  from engine.values import NONE
  fresh3 = 'fresh(result._locals) and fresh(result._locals_with_block_condition)'
  T.add(Contract(
      STATE_PY, 'BlockState.merge_into',
      collections.OrderedDict(self=self_obj, other=('const', NONE)),
      requires=['I(self)'],
      ensures=[
          'result._locals == self._locals', 'result._condition == self._condition',
          'result._locals_with_block_condition == self._locals_with_block_condition',
          fresh3, 'self._locals == old(self._locals)'],
      instance={'other': 'None'}))
  A1 = ('all(implies(x in locals_with_block_condition, x in locals_ and x in other._locals and x in self._locals'
        ' and locals_[x] == self._locals[x] and self._locals[x] == other._locals[x]) for x in every("Str"))')
  FR = ('sem(condition) == (sem(self._condition) or sem(other._condition))')
  T.add(Contract(
      STATE_PY, 'BlockState.merge_into',
      collections.OrderedDict(self=self_obj, other=('obj', 'BlockState')),
      requires=['I(self)', 'I(other)', 'wf_state(self)', 'wf_state(other)'],
      ensures=[
          'I(result)',
          'all(all(has_val(result, x, v) == (has_val(self, x, v) or has_val(other, x, v))'
          ' for v in every("Val")) for x in every("Str"))',
          'wf_state(result)',
          fresh3,
      ],
      loops={
          0: Loop([
              'all((x in locals_) == any(items[k][0] == x for k in range(i)) for x in every("Str"))',
              A1,
              'all(implies(x in locals_ and x not in locals_with_block_condition,'
              ' all(hv(locals_[x], v) == has_val(self, x, v) for v in every("Val"))) for x in every("Str"))',
              'all(implies(x in locals_ and x not in locals_with_block_condition,'
              ' implies_cond(locals_[x], sem(self._condition))) for x in every("Str"))',
              'all(implies(x in locals_ and x not in locals_with_block_condition, wfv(locals_[x])) for x in every("Str"))',
              FR,
          ], index='i', seq='items'),
          1: Loop([
              'all((x in locals_) == (x in self._locals or any(items2[k][0] == x for k in range(j))) for x in every("Str"))',
              A1,
              'all(implies(x in locals_ and x not in locals_with_block_condition,'
              ' all(hv(locals_[x], v) == (has_val(self, x, v) or (any(items2[k][0] == x for k in range(j)) and has_val(other, x, v)))'
              ' for v in every("Val"))) for x in every("Str"))',
              'all(implies(x in locals_ and x not in locals_with_block_condition,'
              ' implies_cond(locals_[x], sem(self._condition) or sem(other._condition))) for x in every("Str"))',
              'all(implies(x in locals_ and x not in locals_with_block_condition, wfv(locals_[x])) for x in every("Str"))',
              FR,
          ], index='j', seq='items2'),
          2: Loop([
              'all((v in bindings) == (hvany(locals_[name], v) or hvanyp(var, v, m)) for v in every("Val"))',
              'all(implies(v in bindings, sem(bindings[v]) == (hv(locals_[name], v) or hvp(var, v, m))) for v in every("Val"))',
          ], index='m'),
      },
      asserts={'locals_[name] = variables.Variable(': [
          'all(hv(locals_[name], v) == (v in bindings and sem(bindings[v])) for v in every("Val"))',
          'wfv(locals_[name])',
          'all(hv(locals_[name], v) == (hv(entry(2, locals_)[name], v) or hv(var, v)) for v in every("Val"))',
      ]},
      ghost={'locals_': Locals, 'locals_with_block_condition': Names,
             'bindings': S.DictOf(Val, Cond)},
      instance={'other': 'BlockState'}))


def extra_obligations(repo):
  """Frame for A-ADT: conditions, bindings and variables are modelled as algebraic data with STRUCTURAL equality
  (the equality a frozen dataclass generates: same class, equal fields).  That is only right while no class of these
  modules defines __eq__/__hash__/__ne__ by hand or switches the generated ones off (eq=False / unsafe_hash)."""
  import ast
  from engine import source
  from engine.core import Obligation
  out = []
  for rel in (COND_PY, VARS_PY):
    m = source.load(repo, rel)
    for node in m.tree.body:
      if not isinstance(node, ast.ClassDef):
        continue
      bad = []
      for st in node.body:
        if isinstance(st, ast.FunctionDef) and st.name in ('__eq__', '__hash__', '__ne__'):
          bad.append('defines %s' % st.name)
        if isinstance(st, ast.Assign) and any(isinstance(t, ast.Name) and t.id in ('__eq__', '__hash__', '__ne__') for t in st.targets):
          bad.append('assigns %s' % ast.unparse(st.targets[0]))
      for d in node.decorator_list:
        if isinstance(d, ast.Call):
          for kw in d.keywords:
            if kw.arg in ('eq', 'unsafe_hash', 'order') and ast.unparse(kw.value) != {'eq': 'True', 'unsafe_hash': 'False', 'order': 'False'}[kw.arg]:
              bad.append('decorator sets %s=%s' % (kw.arg, ast.unparse(kw.value)))
      o = Obligation('C18/%s::%s/frame#structural-equality' % (rel, node.name), 'frame', [], z3.BoolVal(not bad), line=node.lineno,
                     detail='class %s keeps the structural equality/hash its dataclass decorator generates (A-ADT)%s' % (
                         node.name, ': ' + ', '.join(bad) if bad else ''))
      o.owner = '%s::%s' % (rel, node.name)
      o.prechecked = True
      o.status = 'proved' if not bad else 'sat'
      o.backend = 'frame-scan'
      o.model = None if not bad else '; '.join(bad)
      out.append(o)
  return out


NATIVE_IN_QUICK = True   # 1-second bounded sweep on the real modules (labelled bounded, never counted as proved)
SURROUND = ['pytype/rewrite/flow/frame_base.py (threads states through blocks)',
            'pytype/rewrite/frame.py (builds the Variables that are stored; must keep binding values distinct: A-DISTINCT)']


MUTANTS = [
    dict(name='and_accept_ignore_swapped', file=COND_PY,
         old="  _ACCEPT: ClassVar[Condition] = FALSE\n  _IGNORE: ClassVar[Condition] = TRUE\n",
         new="  _ACCEPT: ClassVar[Condition] = TRUE\n  _IGNORE: ClassVar[Condition] = FALSE\n"),
    dict(name='negation_returns_ignore', file=COND_PY,
         old="        return cls._ACCEPT\n", new="        return cls._IGNORE\n"),
    dict(name='not_make_identity', file=COND_PY,
         old="      return condition.condition\n    return cls(condition)\n",
         new="      return condition.condition\n    return condition\n"),
    dict(name='not_make_double', file=COND_PY,
         old="      return condition.condition\n", new="      return condition\n"),
    dict(name='skip_accept_test', file=COND_PY,
         old="      if arg is cls._ACCEPT:\n        return arg\n", new=""),
    dict(name='empty_returns_accept', file=COND_PY,
         old="      return cls._IGNORE\n    if len", new="      return cls._ACCEPT\n    if len"),
    dict(name='with_condition_or', file=VARS_PY,
         old="new_condition = conditions.And(b.condition, condition)",
         new="new_condition = conditions.Or(b.condition, condition)"),
    dict(name='with_condition_drops_old', file=VARS_PY,
         old="new_condition = conditions.And(b.condition, condition)",
         new="new_condition = conditions.And(condition)"),
    dict(name='with_condition_true_shortcut_wrong', file=VARS_PY,
         old="    if condition is conditions.TRUE:\n      return self\n",
         new="    if condition is conditions.FALSE:\n      return self\n"),
    dict(name='state_with_condition_branches_swapped', file=STATE_PY,
         old="      if name in self._locals_with_block_condition:\n        new_locals[name] = var\n",
         new="      if name not in self._locals_with_block_condition:\n        new_locals[name] = var\n"),
    dict(name='state_with_condition_only_new', file=STATE_PY,
         old="    condition = conditions.And(self._condition, condition)\n    new_locals = {}",
         new="    new_locals = {}"),
    dict(name='state_with_condition_shares_set', file=STATE_PY,
         old="        locals_with_block_condition=set(self._locals_with_block_condition),\n    )\n\n  def merge_into",
         new="        locals_with_block_condition=self._locals_with_block_condition,\n    )\n\n  def merge_into"),
    dict(name='store_local_no_lwbc', file=STATE_PY,
         old="    self._locals_with_block_condition.add(name)\n", new="    pass\n"),
    # harmless refactorings that must be accepted (exit 0)
    dict(name='harmless_rename_local', file=COND_PY, expect=0,
         old="      negation = Not(arg)\n      if negation in conditions:",
         new="      neg = Not(arg)\n      if neg in conditions:"),
]
