"""C17 — boolean-equation terms are built and simplified to equivalent terms (booleq.py)."""
import collections

import z3

from engine import sorts as S
from engine.core import Contract, Loop, Theory, ContractMisfit
from engine.values import V, Builtin

PY = 'pytype/pytd/booleq.py'


class TSetSort(S.Sort):
  """The set of sub-terms stored in an _And/_Or: uninterpreted + mem/mk."""
  name = 'TSet'
  flat = True

  def __init__(self):
    self._z = z3.DeclareSort('TSet')

  def z3(self):
    return self._z


def build():
  return [build_terms(), build_eqlaw()]


EQ_LAW = '''
def __law__(a, b):
  e1 = a.__eq__(b)
  ha = a.__hash__()
  hb = b.__hash__()
  return (e1, ha, hb)
'''


def build_eqlaw():
  """Second theory: the hand-written __eq__/__hash__ of _Eq/_And/_Or are structural (same class and equal fields) and lawful
  (equal terms hash equally) -- this is what licenses modelling terms as algebraic data with structural equality (A-EQ) in the
  first theory.  Proof harness over the inlined real methods; children of _And/_Or are opaque elements (induction over the term)."""
  import collections as _c
  from engine.core import Contract as _C
  T = Theory('C17')
  El = S.Uninterp('TermElem')
  T.sorts['TermElem'] = El
  T.bind_obj(PY, '_Eq', _c.OrderedDict(left=S.STR, right=S.STR))
  T.bind_obj(PY, '_And', _c.OrderedDict(exprs=S.SetOf(El)))
  T.bind_obj(PY, '_Or', _c.OrderedDict(exprs=S.SetOf(El)))
  for q in ('_Eq.__eq__', '_Eq.__hash__', '_And.__eq__', '_And.__hash__', '_Or.__eq__', '_Or.__hash__', '_expr_set_hash'):
    T.inline.add((PY, q))
  T.assumptions += [
      'second theory (eq/hash law of booleq terms): A-LIB hash(tuple) is a function of the element sequence, sorted() of a collection of ints is a function of the '
      'multiset, hash(str) of the string; frozenset == is set equality; the children of _And/_Or are opaque elements whose own eq/hash are lawful (induction over the term)',
  ]

  SeqI = S.Seq(S.INT)
  sorted_hashes = z3.Function('sorted_hashes_of', S.SetOf(El).z3(), SeqI.z3())

  def b_sorted(ex, a, k, n):
    """sorted(hash(e) for e in <set>): the hashes of the elements in increasing order -- a function of the SET
    (the multiset of element hashes is determined by the set): A-LIB.  Any other use of sorted() is outside the model."""
    import ast as _ast
    from engine.execcomp import Gen
    g = a[0]
    if not isinstance(g, Gen) or len(g.node.generators) != 1 or g.node.generators[0].ifs:
      raise NotImplementedError('sorted(%r)' % (g,))
    gen = g.node.generators[0]
    elt = g.node.elt
    if not (isinstance(elt, _ast.Call) and isinstance(elt.func, _ast.Name) and elt.func.id == 'hash' and len(elt.args) == 1
            and isinstance(elt.args[0], _ast.Name) and isinstance(gen.target, _ast.Name) and elt.args[0].id == gen.target.id):
      raise NotImplementedError('sorted() of something other than the element hashes')
    saved = ex.env
    ex.env = dict(g.env)
    try:
      it = ex.eval(gen.iter)
    finally:
      ex.env = saved
    it = ex.coerce(it, S.SetOf(El))
    r = V(SeqI, sorted_hashes(it.t))
    ex.assume(SeqI.len(r.t) >= 0)
    return r
  T.builtin_models = {'sorted': b_sorted}

  def law(name, a, b, ens):
    c = _C(PY, name, _c.OrderedDict(a=('obj', a), b=('obj', b)), ensures=ens, instance={})
    c.harness_src = EQ_LAW
    T.add(c)
  same_eq = ['result[0] == (a.left == b.left and a.right == b.right)', 'implies(result[0], result[1] == result[2])']
  same_set = ['result[0] == all((x in a.exprs) == (x in b.exprs) for x in every("TermElem"))', 'implies(result[0], result[1] == result[2])']
  law('eqlaw[_Eq,_Eq]', '_Eq', '_Eq', same_eq)
  law('eqlaw[_And,_And]', '_And', '_And', same_set)
  law('eqlaw[_Or,_Or]', '_Or', '_Or', same_set)
  for x, y in (('_And', '_Or'), ('_Or', '_And'), ('_Eq', '_And'), ('_And', '_Eq'), ('_Eq', '_Or'), ('_Or', '_Eq')):
    law('eqlaw[%s,%s]' % (x, y), x, y, ['not result[0]'])     # terms of different classes are never equal
  return T


def build_terms():
  T = Theory('C17')
  TS = TSetSort()
  d = z3.Datatype('Term')
  d.declare('TrueValue')
  d.declare('FalseValue')
  d.declare('_Eq', ('left', S.STR.z3()), ('right', S.STR.z3()))
  d.declare('_And', ('exprs', TS.z3()))
  d.declare('_Or', ('exprs_or', TS.z3()))
  Z = d.create()
  ctors = collections.OrderedDict([
      ('TrueValue', (0, [])), ('FalseValue', (1, [])), ('_Eq', (2, ['left', 'right'])),
      ('_And', (3, ['exprs'])), ('_Or', (4, ['exprs']))])
  Term = S.Adt('Term', Z, ctors, {
      ('_Eq', 'left'): S.STR, ('_Eq', 'right'): S.STR,
      ('_And', 'exprs'): TS, ('_Or', 'exprs'): TS})
  T.sorts['Term'] = Term
  for cn in ctors:
    T.bind_adt(PY, cn, Term, cn)
  T.bind_adt(PY, 'BooleanTerm', Term, 'ABSTRACT')
  SetTerm = S.SetOf(Term)
  SeqTerm = S.Seq(Term)
  Assign = S.DictOf(S.STR, S.SetOf(S.STR))

  mem = z3.Function('tmem', TS.z3(), Z, z3.BoolSort())
  mk = z3.Function('tmk', z3.ArraySort(Z, z3.BoolSort()), TS.z3())
  sem = z3.Function('bsem', Z, z3.BoolSort())
  isvar = z3.Function('isvar', S.STR.z3(), z3.BoolSort())
  sig = z3.Function('sigma', S.STR.z3(), S.STR.z3())
  wfeq = z3.Function('wfeq', Z, z3.BoolSort())
  val = lambda s: z3.If(isvar(s), sig(s), s)
  x, c = z3.Const('x', Z), z3.Const('c', Z)
  a = z3.Const('a', z3.ArraySort(Z, z3.BoolSort()))
  sub = lambda t: z3.If(Z.is__And(t), Z.exprs(t), Z.exprs_or(t))
  T.axioms += [
      z3.ForAll([a, c], mem(mk(a), c) == a[c]),
      sem(Z.TrueValue), z3.Not(sem(Z.FalseValue)),
      z3.ForAll([x], z3.Implies(Z.is__Eq(x), sem(x) == (val(Z.left(x)) == val(Z.right(x))))),
      z3.ForAll([x], z3.Implies(Z.is__And(x), sem(x) == z3.ForAll(
          [c], z3.Implies(mem(Z.exprs(x), c), sem(c))))),
      z3.ForAll([x], z3.Implies(Z.is__Or(x), sem(x) == z3.Exists(
          [c], z3.And(mem(Z.exprs_or(x), c), sem(c))))),
      # wfeq: every equality inside has a variable on at least one side
      wfeq(Z.TrueValue), wfeq(Z.FalseValue),
      z3.ForAll([x], z3.Implies(Z.is__Eq(x), wfeq(x) == z3.Or(isvar(Z.left(x)), isvar(Z.right(x))))),
      z3.ForAll([x], z3.Implies(z3.Or(Z.is__And(x), Z.is__Or(x)), wfeq(x) == z3.ForAll(
          [c], z3.Implies(mem(sub(x), c), wfeq(c))))),
  ]

  nf = z3.Function('nf', Z, z3.BoolSort())
  T.axioms += [
      # nf: hereditarily, an _And/_Or has no TRUE/FALSE child and no child of its own kind
      nf(Z.TrueValue), nf(Z.FalseValue),
      z3.ForAll([x], z3.Implies(Z.is__Eq(x), nf(x))),
      z3.ForAll([x], z3.Implies(Z.is__And(x), nf(x) == z3.ForAll([c], z3.Implies(mem(Z.exprs(x), c), z3.And(
          c != Z.TrueValue, c != Z.FalseValue, z3.Not(Z.is__And(c)), nf(c)))))),
      z3.ForAll([x], z3.Implies(Z.is__Or(x), nf(x) == z3.ForAll([c], z3.Implies(mem(Z.exprs_or(x), c), z3.And(
          c != Z.TrueValue, c != Z.FalseValue, z3.Not(Z.is__Or(c)), nf(c)))))),
  ]
  flat = nf

  def consistent(asg):
    s = z3.Const('s', S.STR.z3())
    return z3.And(
        z3.ForAll([s], Assign.has(asg, s) == isvar(s)),
        z3.ForAll([s], z3.Implies(isvar(s), z3.Select(Assign.get(asg, s), sig(s)))))

  def to_set(ex, v):
    y = z3.FreshConst(Z, 'y')
    return V(SetTerm, z3.Lambda([y], mem(v.t, y)))
  T.coercions[(SetTerm.name, TS.name)] = lambda ex, v: V(TS, mk(v.t))
  T.coercions[(TS.name, SetTerm.name)] = to_set
  T.as_set[TS.name] = to_set
  T.method_models[(TS.name, '__contains__')] = (
      lambda ex, recv, args, kw: V(S.BOOL, mem(recv.t, ex.coerce(args[0], Term).t)))
  B = lambda n, f: Builtin(n, f, needs_ex=True)
  T.symbols['sem'] = B('sem', lambda ex, a, k, n: V(S.BOOL, sem(ex.coerce(a[0], Term).t)))
  T.symbols['wfeq'] = B('wfeq', lambda ex, a, k, n: V(S.BOOL, wfeq(ex.coerce(a[0], Term).t)))
  T.symbols['flat'] = B('flat', lambda ex, a, k, n: V(S.BOOL, flat(ex.coerce(a[0], Term).t)))
  T.symbols['isvar'] = B('isvar', lambda ex, a, k, n: V(S.BOOL, isvar(ex.coerce(a[0], S.STR).t)))
  T.symbols['val'] = B('val', lambda ex, a, k, n: V(S.STR, val(ex.coerce(a[0], S.STR).t)))
  T.symbols['consistent'] = B('consistent', lambda ex, a, k, n: V(S.BOOL, consistent(a[0].t)))
  T.assumptions += [
      'A-ADT: BooleanTerm has exactly the subclasses TrueValue, FalseValue, _Eq, _And, _Or; TRUE/FALSE are their only instances',
      'A-EQ: membership of terms in Python sets is structural equality (relies on _Eq/_And/_Or.__eq__/__hash__, not under contract)',
      'A-SEM: one arbitrary valuation sigma of variables (isvar) to strings; val(x) = sigma(x) for variables, x itself for values',
      'A-STR: string comparison < is an uninterpreted relation (Eq only needs that the two orientations denote the same equality)',
      'sets stored inside _And/_Or: uninterpreted TSet with mem(mk(a),c)=a[c]; extensionality omitted (completeness only)',
  ]

  # -- constructors ----------------------------------------------------------
  T.add(Contract(
      PY, 'Eq', collections.OrderedDict(left=S.STR, right=S.STR),
      ensures=['sem(result) == (val(left) == val(right))',
               '(result == TRUE) == (left == right)',
               'implies(isvar(left) or isvar(right), wfeq(result))',
               'flat(result)'],
      result=Term))
  inv = [
      'all(implies(c in expr_set, any(exprs[k] == c or (isinstance(exprs[k], result_type) and c in exprs[k].exprs)'
      ' for k in range(i))) for c in every("Term"))',
      'all(exprs[k] != stop_term for k in range(i))',
      'all(implies(exprs[k] != skip_term and not isinstance(exprs[k], result_type), exprs[k] in expr_set) for k in range(i))',
      'all(implies(isinstance(exprs[k], result_type), all(implies(c in exprs[k].exprs, c in expr_set) for c in every("Term")))'
      ' for k in range(i))',
      'all(implies(c in expr_set, c != TRUE and c != FALSE and not isinstance(c, result_type) and flat(c)) for c in every("Term"))',
  ]
  for rt, stop, skip, agg in (('_And', 'FALSE', 'TRUE', 'all'), ('_Or', 'TRUE', 'FALSE', 'any')):
    T.add(Contract(
        PY, 'simplify_exprs',
        collections.OrderedDict(exprs=SeqTerm, result_type=('cls', rt), stop_term=Term, skip_term=Term),
        requires=['stop_term == %s and skip_term == %s' % (stop, skip),
                  'all(flat(e) for e in exprs)'],
        ensures=['sem(result) == %s(sem(e) for e in exprs)' % agg,
                 'flat(result)',
                 'implies(all(wfeq(e) for e in exprs), wfeq(result))'],
        loops={0: Loop(inv, index='i')},
        result=Term, instance={'result_type': rt}, ghost={'expr_set': SetTerm}))
    T.add(Contract(
        PY, rt[1:], collections.OrderedDict(exprs=SeqTerm),
        requires=['all(flat(e) for e in exprs)'],
        ensures=['sem(result) == %s(sem(e) for e in exprs)' % agg, 'flat(result)',
                 'implies(all(wfeq(e) for e in exprs), wfeq(result))'],
        result=Term))

  # -- simplify: one behavioural contract, verified for every override ---------
  sreq = ['wfeq(self)', 'consistent(assignments)']
  sens = ['sem(result) == sem(self)', 'flat(result)', 'wfeq(result)']
  T.add(Contract(PY, 'BooleanTerm.simplify', collections.OrderedDict(self=Term, assignments=Assign),
                 requires=sreq, ensures=sens, result=Term, verify=False,
                 note='virtual: used for dynamic dispatch; every override below is verified against it'))
  T.virtual[(Term.name, 'simplify')] = (PY, 'BooleanTerm.simplify')
  for cn in ('TrueValue', 'FalseValue', '_Eq', '_And', '_Or'):
    T.add(Contract(PY, cn + '.simplify', collections.OrderedDict(self=Term, assignments=Assign),
                   requires=['isinstance(self, %s)' % cn] + sreq, ensures=sens, result=Term))
  return T


def precheck(repo):
  """Behavioural subtyping is only sound if every concrete subclass overrides simplify."""
  from engine import source
  m = source.load(repo, PY)
  subs = [c for c in m.subclasses('BooleanTerm') if c != 'BooleanTerm']
  known = {'TrueValue', 'FalseValue', '_Eq', '_And', '_Or'}
  if set(subs) != known:
    raise ContractMisfit('subclasses of BooleanTerm changed: %s' % sorted(subs))
  for c in subs:
    if m.resolve_method(c, 'simplify') != c + '.simplify':
      raise ContractMisfit('%s does not override simplify' % c)


SURROUND = ['booleq.Solver.solve / implies / _get_first_approximation (consumers)',
            'extract_pivots / extract_equalities', 'pytype/pytd/type_match.py', 'pytype/convert_structural.py',
            '_Eq/_And/_Or.__eq__/__hash__/_expr_set_hash (assumed: A-EQ)']
NATIVE_IN_QUICK = True
MUTANTS = [
    dict(name='eq_and_ignores_class', file=PY, old="  def __eq__(self, other):\n    return self.__class__ == other.__class__ and self.exprs == other.exprs\n\n  def __repr__(self):\n    return f\"And(", new="  def __eq__(self, other):\n    return self.exprs == other.exprs\n\n  def __repr__(self):\n    return f\"And("),
    dict(name='set_hash_unsorted', file=PY, old="  return hash(tuple(sorted(hash(e) for e in expr_set)))\n", new="  return hash(tuple(hash(e) for e in expr_set))\n"),
    dict(name='eq_hash_ignores_right_lawful', file=PY, expect=0, old="    return hash((self.left, self.right))\n", new="    return hash(self.left)\n"),

    dict(name='stop_skip_swapped_in_And', file=PY,
         old="  return simplify_exprs(exprs, _And, FALSE, TRUE)\n", new="  return simplify_exprs(exprs, _And, TRUE, FALSE)\n"),
    dict(name='union_to_intersection', file=PY,
         old="expr_set = expr_set.union(e.exprs)", new="expr_set = expr_set.intersection(e.exprs)"),
    dict(name='eq_same_returns_false', file=PY,
         old="  if left == right:\n    return TRUE\n", new="  if left == right:\n    return FALSE\n"),
    dict(name='eq_simplify_negated', file=PY,
         old="return self if self.right in assignments[self.left] else FALSE",
         new="return self if self.right not in assignments[self.left] else FALSE"),
    dict(name='singleton_returns_skip', file=PY,
         old="  elif expr_set:\n    return expr_set.pop()\n", new="  elif expr_set:\n    return skip_term\n"),
    dict(name='no_flatten', file=PY,
         old="    elif isinstance(e, result_type):\n      expr_set = expr_set.union(e.exprs)\n", new=""),
    dict(name='and_simplify_uses_or', file=PY,
         old="        (e.simplify(assignments) for e in self.exprs), _And, FALSE, TRUE\n",
         new="        (e.simplify(assignments) for e in self.exprs), _Or, TRUE, FALSE\n"),
    dict(name='skip_not_skipped', file=PY,
         old="    elif e is skip_term:\n      continue\n", new=""),
    dict(name='threshold_len', file=PY,
         old="  if len(expr_set) > 1:\n", new="  if len(expr_set) > 2:\n"),
    dict(name='harmless_union_operator', file=PY, expect=0,
         old="expr_set = expr_set.union(e.exprs)", new="expr_set = expr_set | e.exprs"),
]
