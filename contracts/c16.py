"""C16 — every code object becomes a well-formed ordered block graph.

Kernel under contract: blocks._split_bytecode (partition), blocks.compute_order (edges) and
cfg_utils.order_nodes (execution order).  DESIGN.md section 3, C16.
"""
import collections

import z3

from engine import sorts as S
from engine.core import Contract, Loop, Theory
from engine.values import V, Builtin, NONE

BLOCKS_PY = 'pytype/blocks/blocks.py'
CFGU_PY = 'pytype/typegraph/cfg_utils.py'
OPCODES_PY = 'pytype/pyc/opcodes.py'


def build():
  T = Theory('C16')
  T.append_frame_trigger = True
  Op = S.Uninterp('Op')
  OptOp = S.Opt(Op)
  SeqOp = S.Seq(Op)
  Block = S.Rec('Block', [('code', SeqOp)])
  SeqBlock = S.Seq(Block)
  T.sorts.update(Op=Op, Block=Block)
  ZOp = Op.z3()
  f_target = z3.Function('op_target', ZOp, OptOp.z3())
  f_next = z3.Function('op_next', ZOp, OptOp.z3())
  f_no_next = z3.Function('op_no_next', ZOp, z3.BoolSort())
  f_does_jump = z3.Function('op_does_jump', ZOp, z3.BoolSort())
  f_pops_block = z3.Function('op_pops_block', ZOp, z3.BoolSort())
  f_is_send = z3.Function('op_is_SEND', ZOp, z3.BoolSort())
  f_is_get_anext = z3.Function('op_is_GET_ANEXT', ZOp, z3.BoolSort())
  for sn in (Op.name,):
    T.attr_models[(sn, 'target')] = lambda ex, v: V(OptOp, f_target(v.t))
    T.attr_models[(sn, 'next')] = lambda ex, v: V(OptOp, f_next(v.t))
    T.attr_models[(sn, 'isinstance:SEND')] = lambda ex, v: f_is_send(v.t)
    T.attr_models[(sn, 'isinstance:GET_ANEXT')] = lambda ex, v: f_is_get_anext(v.t)
    T.method_models[(sn, 'no_next')] = lambda ex, recv, a, k: V(S.BOOL, f_no_next(recv.t))
    T.method_models[(sn, 'does_jump')] = lambda ex, recv, a, k: V(S.BOOL, f_does_jump(recv.t))
    T.method_models[(sn, 'pops_block')] = lambda ex, recv, a, k: V(S.BOOL, f_pops_block(recv.t))
  # isinstance on an Optional[Op] (op.next): the value is known to be an opcode there
  T.attr_models[(OptOp.name, 'isinstance:GET_ANEXT')] = lambda ex, v: z3.And(
      z3.Not(OptOp.is_none(v.t)), f_is_get_anext(OptOp.val(v.t)))
  B = lambda nm, f: Builtin(nm, f, needs_ex=True)
  T.symbols['is_send'] = B('is_send', lambda ex, a, k, n: V(S.BOOL, f_is_send(ex.coerce(a[0], Op).t)))
  T.symbols['is_get_anext'] = B('is_get_anext', lambda ex, a, k, n: V(S.BOOL, f_is_get_anext(ex.coerce(a[0], Op).t)))

  # Block(code): only `code` matters for the partition; id/incoming/outgoing are set from it
  def mk_block(ex, args, kwargs, node):
    code = ex.coerce(args[0], SeqOp)
    ex.oblige(SeqOp.len(code.t) > 0, 'safety', 'Block(code): code[0] exists (non-empty block)')
    return V(Block, Block.make([code.t]))
  T.classes[(BLOCKS_PY, 'Block')] = ('opaque', mk_block)
  T.exc_parents['AssertionError'] = 'Exception'
  T.assumptions += [
      'opcodes are opaque objects compared by identity; op.target / op.next are stable attribute reads (A-ATTR); '
      'no_next()/does_jump()/pops_block() and isinstance(op, SEND/GET_ANEXT) are arbitrary but fixed predicates of the opcode',
      'Block(code) is modelled by its code list (id = code[0].index, empty incoming/outgoing): A-BLOCK',
      'precondition of _split_bytecode: next-links are consistent (bytecode[j].next is bytecode[j+1], the last has next None) and '
      'opcodes are pairwise distinct objects -- proved as postconditions of opcodes._make_opcode_list in the third theory (the passes between '
      'build_opcodes and _split_bytecode -- process_code, add_pop_block_targets -- do not rewrite next links: not proved, sampled natively)',
      'precondition of _split_bytecode: python_version < (3, 12) or the code has no SEND / GET_ANEXT opcode '
      '(the async-for / yield-from block surgery of 3.12 is not under contract: bounded native sweep only)',
  ]
  Ver = S.Tup(S.INT, S.INT)
  SetBlock = S.SetOf(S.Uninterp('BlockRef'))
  nolinks = ['all(bytecode[j].next == bytecode[j + 1] for j in range(len(bytecode) - 1))',
             'len(bytecode) == 0 or bytecode[len(bytecode) - 1].next is None',
             'all(all(implies(j != k, bytecode[j] != bytecode[k]) for k in range(len(bytecode))) for j in range(len(bytecode)))',
             'python_version < (3, 12) or all(not is_send(o) and not is_get_anext(o) for o in bytecode)']
  part = ['len(starts) == len(blocks) + 1', 'starts[0] == 0',
          'all(starts[k] < starts[k + 1] for k in range(len(blocks)))',
          'all(len(blocks[k].code) == starts[k + 1] - starts[k] for k in range(len(blocks)))',
          'all(all(blocks[k].code[p] == bytecode[starts[k] + p] for p in range(len(blocks[k].code))) for k in range(len(blocks)))']
  T.add(Contract(
      BLOCKS_PY, '_split_bytecode',
      collections.OrderedDict(bytecode=SeqOp, processed_blocks=SetBlock, python_version=Ver),
      requires=nolinks,
      ensures=[s.replace('blocks', 'result') for s in part] + [
          'starts[len(result)] == len(bytecode)',
          # every resolved jump target that is an instruction of this code starts a block
          'all(implies(any(o.target == bytecode[j] for o in bytecode), any(starts[k] == j for k in range(len(result))))'
          ' for j in range(len(bytecode)))',
      ],
      loops={0: Loop(part + [
          '0 <= i and i <= len(bytecode)',
          'i == starts[len(blocks)] + len(code)',
          'all(code[p] == bytecode[starts[len(blocks)] + p] for p in range(len(code)))',
          'implies(len(code) > 0, i < len(bytecode))',
          'all(implies(bytecode[j] in targets, j == 0 or any(starts[k] == j for k in range(len(blocks) + 1)))'
          ' for j in range(i + 1) if j < len(bytecode))',
          'all((t in targets) == any(o.target == t for o in bytecode) for t in every("Op"))',
      ], ghost_init=['starts = [0]'],
         ghost_end=['starts = starts + [i] if len(blocks) == len(starts) else starts'])},
      asserts={'blocks.append(prev_block)': [
          'all(blocks[len(blocks) - 1].code[p] == bytecode[starts[len(blocks) - 1] + p] for p in range(len(blocks[len(blocks) - 1].code)))',
          'all(all(blocks[k].code[p] == bytecode[starts[k] + p] for p in range(len(blocks[k].code))) for k in range(len(blocks) - 1))']},
      result=SeqBlock,
      ghost={'blocks': SeqBlock, 'code': SeqOp, 'starts': S.Seq(S.INT), 'targets': S.SetOf(OptOp),
             'prev_block': S.Opt(Block)},
      ghost_out={'starts': S.Seq(S.INT)}))
  _order_nodes(T)
  return [T, _compute_order_theory(), _opcodes_theory()]


def _opcodes_theory():
  """opcodes._make_opcode_list / _add_jump_targets: instruction indices, next/prev links, jump-target resolution.

  Opcodes are heap objects here (their index / next / prev / target / arg fields are written).  What is proved is
  what blocks._split_bytecode assumes about its input (consistent next links, pairwise distinct opcodes) and the
  C16 clause `every jump target resolves to an instruction in the same code object`."""
  T = Theory('C16')
  T.append_frame_trigger = True
  Ref = S.Uninterp('OpRef')
  OptRef = S.Opt(Ref)
  SeqR = S.Seq(Ref)
  Item = S.Tup(S.INT, Ref)
  Items = S.Seq(Item)
  D = S.DictOf(S.INT, Ref)
  OTI = S.DictOf(S.INT, S.INT)
  Ver = S.Tup(S.INT, S.INT)
  T.sorts.update(OpRef=Ref)
  T.bind_heap(OPCODES_PY, 'Opcode', Ref, collections.OrderedDict(
      index=S.INT, next=OptRef, prev=OptRef, target=OptRef, arg=S.INT, argval=S.INT))
  ZR = Ref.z3()
  is_jb = z3.Function('is_JUMP_BACKWARD', ZR, z3.BoolSort())
  is_eaf = z3.Function('is_END_ASYNC_FOR', ZR, z3.BoolSort())
  known_jump = z3.Function('has_known_jump', ZR, z3.BoolSort())
  x = z3.Const('x', ZR)
  T.axioms.append(z3.ForAll([x], z3.Not(z3.And(is_jb(x), is_eaf(x))), patterns=[is_jb(x)]))   # two different concrete opcode classes
  T.attr_models[(Ref.name, 'isinstance:JUMP_BACKWARD')] = lambda ex, v: is_jb(v.t)
  T.attr_models[(Ref.name, 'isinstance:END_ASYNC_FOR')] = lambda ex, v: is_eaf(v.t)
  T.method_models[(Ref.name, 'has_known_jump')] = lambda ex, recv, a, k: V(S.BOOL, known_jump(recv.t))
  B = lambda nm, f: Builtin(nm, f, needs_ex=True)
  T.symbols['known_jump'] = B('known_jump', lambda ex, a, k, n: V(S.BOOL, known_jump(ex.coerce(a[0], Ref).t)))
  sorted_items = z3.Function('sorted_items', D.z3(), Items.z3())

  def b_sorted(ex, a, k, n):
    """sorted(d.items()) for a dict with int keys: the (key, value) pairs in strictly increasing key order (A-LIB)."""
    if not (isinstance(a[0], tuple) and a[0][0] == 'dict_items'):
      raise NotImplementedError('sorted(%r)' % (a[0],))
    d = a[0][1]
    r = sorted_items(d.t)
    p, q, kk = z3.Ints('p q kk')
    ex.assume(Items.len(r) >= 0)
    ex.assume(z3.ForAll([p], z3.Implies(z3.And(0 <= p, p < Items.len(r)), z3.And(
        D.has(d.t, Item.get(Items.at(r, p), 0)), Item.get(Items.at(r, p), 1) == D.get(d.t, Item.get(Items.at(r, p), 0)))),
        patterns=[Items.at(r, p)]))
    ex.assume(z3.ForAll([p, q], z3.Implies(z3.And(0 <= p, p < q, q < Items.len(r)),
                                          Item.get(Items.at(r, p), 0) < Item.get(Items.at(r, q), 0)),
                        patterns=[z3.MultiPattern(Items.at(r, p), Items.at(r, q))]))
    pos = z3.Function('pos_in_sorted_items', D.z3(), z3.IntSort(), z3.IntSort())
    ex.assume(z3.ForAll([kk], z3.Implies(D.has(d.t, kk), z3.And(0 <= pos(d.t, kk), pos(d.t, kk) < Items.len(r),
                                                              Item.get(Items.at(r, pos(d.t, kk)), 0) == kk)),
                        patterns=[D.has(d.t, kk)]))
    return V(Items, r)
  T.builtin_models = {'sorted': b_sorted, 'typing.cast': lambda ex, a, k, n: a[1], 'cast': lambda ex, a, k, n: a[1]}
  T.assumptions += [
      'third theory (opcodes.py): opcodes are heap objects; JUMP_BACKWARD and END_ASYNC_FOR are different concrete classes; has_known_jump() is a fixed predicate of the opcode',
      'A-LIB: sorted(d.items()) for int keys lists exactly the items of d in strictly increasing key order; typing.cast returns its argument',
      'precondition of _make_opcode_list: distinct offsets hold distinct opcode objects (opcodes._make_opcodes creates one object per instruction: unverified)',
      'precondition of _add_jump_targets: a target pre-set by _add_setup_except is an opcode of the list, and the offset a jump names is a key of offset_to_index '
      '(disassembler output: unverified); both are sampled by the native pipeline sweep',
  ]
  distinct_vals = ('all(all(implies(a != b and a in offset_to_op and b in offset_to_op, offset_to_op[a] != offset_to_op[b])'
                   ' for b in every("Int")) for a in every("Int"))')
  ops_ok = lambda o, n: [
      'all(%s[k].index == k for k in range(%s))' % (o, n),
      'all(%s[k].next == %s[k + 1] for k in range(%s - 1))' % (o, o, n),
      'implies(%s > 0, %s[%s - 1].next is None and %s[0].prev is None)' % (n, o, n, o),
      'all(%s[k + 1].prev == %s[k] for k in range(%s - 1))' % (o, o, n),
      'all(all(implies(j != k, %s[j] != %s[k]) for k in range(%s)) for j in range(%s))' % (o, o, n, n),
  ]
  T.add(Contract(
      OPCODES_PY, '_make_opcode_list', collections.OrderedDict(offset_to_op=D, python_version=Ver),
      requires=[distinct_vals],
      ensures=ops_ok('result[0]', 'len(result[0])') + [
          # every offset is mapped to the index of an instruction of the list (an elided instruction to the one after it)
          'all(implies(off in offset_to_op, off in result[1] and 0 <= result[1][off] and result[1][off] < len(result[0])) for off in every("Int"))',
          # the list consists of instructions of this code object
          'all(any(offset_to_op[off] == result[0][k] and off in offset_to_op for off in every("Int")) for k in range(len(result[0])))',
      ],
      loops={0: Loop(ops_ok('ops', 'len(ops)') + [
          'index == len(ops) - 1',
          'implies(len(ops) > 0, same(prev_op, ops[len(ops) - 1]))', 'implies(len(ops) == 0, prev_op is None)',
          'all(any(op_items[m][1] == ops[k] for m in range(i)) for k in range(len(ops)))',
          'all(op_items[m][0] in offset_to_index and 0 <= offset_to_index[op_items[m][0]] and offset_to_index[op_items[m][0]] <= len(ops) for m in range(i))',
          # only the instruction just elided may still point one past the end
          'all(implies(offset_to_index[op_items[m][0]] == len(ops), m == i - 1 and m + 1 < len(op_items) and is_jb(op_items[m][1]) and is_eaf(op_items[m + 1][1])) for m in range(i))',
          'all(implies(off in offset_to_index, any(op_items[m][0] == off for m in range(i))) for off in every("Int"))',
      ], index='i', seq='S_', havoc=['$H.Opcode.index', '$H.Opcode.next', '$H.Opcode.prev'])},
      result=S.Tup(SeqR, OTI),
      ghost={'ops': SeqR, 'offset_to_index': OTI, 'prev_op': OptRef, 'index': S.INT, 'op_items': Items}))
  T.symbols['is_jb'] = B('is_jb', lambda ex, a, k, n: V(S.BOOL, is_jb(ex.coerce(a[0], Ref).t)))
  T.symbols['is_eaf'] = B('is_eaf', lambda ex, a, k, n: V(S.BOOL, is_eaf(ex.coerce(a[0], Ref).t)))
  in_ops = lambda t: 'any(ops[j] == %s for j in range(len(ops)))' % t
  T.add(Contract(
      OPCODES_PY, '_add_jump_targets', collections.OrderedDict(ops=SeqR, offset_to_index=OTI),
      requires=['all(ops[k].index == k for k in range(len(ops)))',
                'all(all(implies(j != k, ops[j] != ops[k]) for k in range(len(ops))) for j in range(len(ops)))',
                'all(implies(ops[k].target is not None, %s) for k in range(len(ops)))' % in_ops('ops[k].target'),
                'all(implies(ops[k].target is None and known_jump(ops[k]), ops[k].argval in offset_to_index and 0 <= offset_to_index[ops[k].argval]'
                ' and offset_to_index[ops[k].argval] < len(ops)) for k in range(len(ops)))'],
      ensures=[
          # every jump target resolves to an instruction of the same code object, and arg is that instruction's index
          'all(implies(ops[k].target is not None, 0 <= ops[k].arg and ops[k].arg < len(ops) and ops[ops[k].arg] == ops[k].target)'
          ' for k in range(len(ops)))',
          'all(implies(known_jump(ops[k]), ops[k].target is not None) for k in range(len(ops)))',
          'all(ops[k].index == k for k in range(len(ops)))',
      ],
      loops={0: Loop([
          'all(implies(ops[k].target is not None, 0 <= ops[k].arg and ops[k].arg < len(ops) and ops[ops[k].arg] == ops[k].target) for k in range(i))',
          'all(implies(known_jump(ops[k]), ops[k].target is not None) for k in range(i))',
          'all(ops[k].index == k for k in range(len(ops)))',
          'all(same(ops[k].target, old(ops[k].target)) and same(ops[k].argval, old(ops[k].argval)) for k in range(i, len(ops)))',
      ], index='i', seq='S_', havoc=['$H.Opcode.arg', '$H.Opcode.argval', '$H.Opcode.target'])}))
  return T


def _compute_order_theory():
  """blocks.compute_order: the edges between the blocks.  Blocks are heap objects here (they are mutated
  through aliases: block.connect_outgoing(target) writes target.incoming), so this is a second theory
  with its own model of Block; _split_bytecode and order_nodes enter with the contracts proved above."""
  T = Theory('C16')
  T.append_frame_trigger = True
  Op = S.Uninterp('Op')
  OptOp = S.Opt(Op)
  SeqOp = S.Seq(Op)
  Ref = S.Uninterp('BlockRef')
  SeqB, SetB = S.Seq(Ref), S.SetOf(Ref)
  Ver = S.Tup(S.INT, S.INT)
  T.sorts.update(Op=Op, BlockRef=Ref)
  ZOp = Op.z3()
  f_target = z3.Function('op_target', ZOp, OptOp.z3())
  f_btarget = z3.Function('op_block_target', ZOp, OptOp.z3())
  f_no_next = z3.Function('op_no_next', ZOp, z3.BoolSort())
  f_index = z3.Function('op_index', ZOp, z3.IntSort())
  T.attr_models[(Op.name, 'target')] = lambda ex, v: V(OptOp, f_target(v.t))
  T.attr_models[(Op.name, 'block_target')] = lambda ex, v: V(OptOp, f_btarget(v.t))
  T.attr_models[(Op.name, 'index')] = lambda ex, v: V(S.INT, f_index(v.t))
  T.method_models[(Op.name, 'no_next')] = lambda ex, recv, a, k: V(S.BOOL, f_no_next(recv.t))
  T.bind_heap(BLOCKS_PY, 'Block', Ref, collections.OrderedDict(id=S.INT, code=SeqOp, incoming=SetB, outgoing=SetB))
  T.inline.add((BLOCKS_PY, 'Block.connect_outgoing'))
  T.assumptions += [
      'Block objects are modelled in a heap (one map per field, indexed by object reference): aliasing between blocks is exact',
      'compute_order is proved for python_version < (3, 12) (the instance without the async-for / yield-from surgery calls); the edge loop '
      'is the same code for every version',
      'precondition: the block_target of a block\'s last instruction is the first instruction of some block (add_pop_block_targets; sampled natively)',
      '_split_bytecode enters with (the heap rendering of) its contract proved in the first theory; order_nodes likewise',
      'NOT proved for compute_order: that no edges other than fall-through / target / block_target edges are added (exactness); sampled natively',
  ]
  last = 'blocks[k].code[len(blocks[k].code) - 1]'
  edge = lambda tgt: ('all(implies(%s is not None, any(b.code[0] == %s and b in blocks[k].outgoing for b in blocks)) for k in range(%%s))' % (tgt, tgt))
  clauses = [
      'all(implies(k + 1 < len(blocks) and not %s.no_next(), blocks[k + 1] in blocks[k].outgoing) for k in range(%%s))' % last,
      edge('blocks[k].code[0].target'), edge(last + '.target'), edge(last + '.block_target'),
      'all(all(implies(x in blocks[k].outgoing, blocks[k] in x.incoming) for x in every("BlockRef")) for k in range(%s))',
  ]
  split_post = [
      'all(len(b.code) > 0 for b in result)',
      'all(all(implies(j != k, result[j] != result[k] and result[j].code[0] != result[k].code[0]) for k in range(len(result))) for j in range(len(result)))',
      'all(implies(o.target is not None and o.target in bytecode, any(b.code[0] == o.target for b in result)) for o in bytecode)',
      'all(all(x in bytecode for x in b.code) for b in result)',
      'all(all(x not in b.outgoing and x not in b.incoming for x in every("BlockRef")) for b in result)',
  ]
  T.add(Contract(BLOCKS_PY, '_split_bytecode', collections.OrderedDict(bytecode=SeqOp, processed_blocks=SetB, python_version=Ver),
                 ensures=split_post, result=SeqB, verify=False,
                 note='proved in the first theory (partition, targets start blocks); restated over heap blocks'))
  T.add(Contract(CFGU_PY, 'order_nodes', collections.OrderedDict(nodes=SeqB),
                 requires=['all(all(x in nodes for x in y.outgoing) for y in nodes)'],
                 ensures=['implies(len(nodes) > 0, len(result) > 0 and result[0] == nodes[0])',
                          'all(all(implies(j != k, result[j] != result[k]) for k in range(len(result))) for j in range(len(result)))',
                          'all(any(result[k] in result[j].outgoing for j in range(k)) for k in range(1, len(result)))',
                          'all(all(x in result for x in y.outgoing) for y in result)',
                          'all(x in nodes for x in result)'],
                 result=SeqB, verify=False, note='proved in the first theory (order, closure, reachability)'))
  T.add(Contract(
      BLOCKS_PY, 'compute_order', collections.OrderedDict(bytecode=SeqOp, python_version=Ver),
      requires=['python_version < (3, 12)',
                'all(implies(o.target is not None, o.target in bytecode) for o in bytecode)',
                'all(implies(o.block_target is not None, any(p.target == o.block_target for p in bytecode)) for o in bytecode)'],
      ensures=[c % 'len(blocks)' for c in clauses] + [
          'implies(len(blocks) > 0, len(result) > 0 and result[0] == blocks[0])',
          'all(all(x in result for x in y.outgoing) for y in result)',
          'all(any(result[k] in result[j].outgoing for j in range(k)) for k in range(1, len(result)))'],
      loops={0: Loop([c % 'i' for c in clauses] + [
          'all(all(x not in blocks[k].outgoing for x in every("BlockRef")) for k in range(i, len(blocks)))',
          'all(all(implies(x in b.outgoing, x in blocks) for x in every("BlockRef")) for b in blocks)',
      ], index='i', havoc=['$H.Block.outgoing', '$H.Block.incoming'])},
      asserts={'first_op_to_block = ': [
          'all(implies(t in first_op_to_block, first_op_to_block[t] in blocks and first_op_to_block[t].code[0] == t) for t in every("Op"))',
          'all(b.code[0] in first_op_to_block for b in blocks)']},
      result=SeqB,
      ghost={'blocks': SeqB, 'processed_blocks': SetB, 'first_op_to_block': S.DictOf(Op, Ref), 'next_block': S.Opt(Ref)}))
  return T


def _order_nodes(T):
  """cfg_utils.order_nodes: the execution order."""
  Node = S.Uninterp('Node')
  SeqN, SetN = S.Seq(Node), S.SetOf(Node)
  PredMap = S.DictOf(Node, SetN)
  T.sorts['Node'] = Node
  ZN = Node.z3()
  out = z3.Function('outgoing', ZN, SetN.z3())
  nid = z3.Function('node_id', ZN, z3.IntSort())
  reach = z3.Function('reach', ZN, ZN, z3.BoolSort())
  closed = z3.Function('closed', ZN, SetN.z3(), z3.BoolSort())
  T.attr_models[(Node.name, 'outgoing')] = lambda ex, v: V(SetN, out(v.t), origin=('immutable', 'Node', 'outgoing'))
  T.attr_models[(Node.name, 'id')] = lambda ex, v: V(S.INT, nid(v.t))
  r, m, n = z3.Consts('r m n', ZN)
  st = z3.Const('st', SetN.z3())
  T.axioms += [
      z3.ForAll([r], reach(r, r), patterns=[reach(r, r)]),
      z3.ForAll([r, m, n], z3.Implies(z3.And(reach(r, m), z3.Select(out(m), n)), reach(r, n)),
                patterns=[z3.MultiPattern(reach(r, m), z3.Select(out(m), n))]),
      z3.ForAll([r, st], closed(r, st) == z3.And(z3.Select(st, r), z3.ForAll([m, n], z3.Implies(
          z3.And(z3.Select(st, m), z3.Select(out(m), n)), z3.Select(st, n)))), patterns=[closed(r, st)]),
      # A-LFP: reach(r, .) is the LEAST set containing r and closed under outgoing edges
      z3.ForAll([r, st], z3.Implies(closed(r, st), z3.ForAll([n], z3.Implies(reach(r, n), z3.Select(st, n)))),
                patterns=[closed(r, st)]),
  ]
  B = lambda nm, f: Builtin(nm, f, needs_ex=True)
  T.symbols['reach'] = B('reach', lambda ex, a, k, nn: V(S.BOOL, reach(ex.coerce(a[0], Node).t, ex.coerce(a[1], Node).t)))
  T.symbols['closed'] = B('closed', lambda ex, a, k, nn: V(S.BOOL, closed(ex.coerce(a[0], Node).t, ex.to_set(a[1]).t)))
  T.assumptions += [
      'nodes/blocks are opaque objects compared by identity; node.outgoing and node.id are stable reads during order_nodes (A-ATTR)',
      'A-LFP: reach(r, .) is axiomatised as the least set containing r and closed under outgoing (introduction rules + induction schema); '
      'the schema is the definition of graph reachability, not proved by the solver',
      'A-LIB: min(generator) returns SOME element of the generator (which one is not used by the contract)',
      'the values stored in queue / predecessor_map (predecessor sets, mutated through aliases) are not tracked: they are havocked at '
      'every loop head and no clause depends on them; the final `assert len(set(order) | dead) == len(set(nodes))` depends on them and is NOT proved '
      '(a failing assert is an exceptional exit outside the contract)',
      'precondition of order_nodes: the node list is closed under outgoing edges (compute_order connects blocks of its own list only)',
  ]
  T.exc_parents['AssertionError'] = 'Exception'
  T.add(Contract(
      CFGU_PY, 'compute_predecessors', collections.OrderedDict(nodes=SeqN),
      ensures=['all((x in result) == (x in nodes) for x in every("Node"))'],
      result=PredMap, verify=False,
      note='only the key set of the result is used (dict comprehension over `nodes`); checked natively'))
  keys2 = 'all((x in queue) == (x in entry(2, queue) or any(outs[k] == x for k in range(i))) for x in every("Node"))'
  T.add(Contract(
      CFGU_PY, 'order_nodes', collections.OrderedDict(nodes=SeqN),
      requires=['all(all(x in nodes for x in y.outgoing) for y in nodes)'],
      ensures=[
          'implies(len(nodes) == 0, len(result) == 0)',
          'implies(len(nodes) > 0, len(result) > 0 and result[0] == nodes[0])',
          # exactly once
          'all(all(implies(j != k, result[j] != result[k]) for k in range(len(result))) for j in range(len(result)))',
          # at least one predecessor before each non-entry block
          'all(any(result[k] in result[j].outgoing for j in range(k)) for k in range(1, len(result)))',
          # every block reachable from the entry, and only those
          'implies(len(nodes) > 0, closed(nodes[0], result))',
          'implies(len(nodes) > 0, all((x in result) == reach(nodes[0], x) for x in every("Node")))',
      ],
      loops={
          0: Loop([
              'all((x in predecessor_map) == (x in nodes) for x in every("Node"))',
              'root == nodes[0]',
              'all(all(implies(j != k, order[j] != order[k]) for k in range(len(order))) for j in range(len(order)))',
              'all((x in seen) == (x in order) for x in every("Node"))',
              'implies(len(order) == 0, root in queue)',
              'implies(len(order) > 0, order[0] == root)',
              'all(implies(x in queue, (len(order) == 0 and x == root) or any(x in order[j].outgoing for j in range(len(order))))'
              ' for x in every("Node"))',
              'all(any(order[k] in order[j].outgoing for j in range(k)) for k in range(1, len(order)))',
              'all(all(x in seen or x in queue for x in y.outgoing) for y in order)',
              'all(implies(x in queue, x in nodes) for x in every("Node"))',
              'all(x in nodes for x in order)',
              'all(implies(x in queue, reach(root, x)) for x in every("Node"))',
              'all(reach(root, x) for x in order)',
          ], havoc=['predecessor_map', 'queue']),
          1: Loop(['all((x in queue) == (x in entry(1, queue)) for x in every("Node"))',
                   'all((x in predecessor_map) == (x in nodes) for x in every("Node"))'], havoc=['predecessor_map', 'queue']),
          2: Loop([keys2], index='i', seq='outs'),
      },
      result=SeqN, may_raise=('AssertionError',),
      ghost={'order': SeqN, 'seen': SetN, 'queue': PredMap, 'predecessor_map': PredMap, 'dead': SetN, 'root': Node}))


SURROUND = ['opcodes._make_opcodes / _add_setup_except (object per instruction, exception-table rewriting), pyc.py',
            'blocks.add_pop_block_targets, exception-table rewriting',
            'blocks._preprocess_async_for_and_yield, _remove_jmp_to_get_anext_and_merge, _remove_jump_back_block (3.12 async surgery)',
            'cfg_utils.compute_predecessors (only needed for the final assert of order_nodes)',
            'process_blocks.py']
NATIVE_IN_QUICK = True
MUTANTS = [
    # opcodes.py (third theory)
    dict(name='ops_index_not_restored', file=OPCODES_PY, old="      offset_to_index[off] = index\n      index -= 1\n      continue\n", new="      offset_to_index[off] = index\n      continue\n"),
    dict(name='ops_no_next_link', file=OPCODES_PY, old="    if prev_op:\n      prev_op.next = op\n", new=""),
    dict(name='ops_last_next_stale', file=OPCODES_PY, old="    op.prev = prev_op\n    op.next = None\n", new="    op.prev = prev_op\n"),
    dict(name='ops_offset_off_by_one', file=OPCODES_PY, old="    op.index = index\n    offset_to_index[off] = index\n", new="    op.index = index\n    offset_to_index[off] = index + 1\n"),
    dict(name='ops_prev_wrong', file=OPCODES_PY, old="    op.prev = prev_op\n", new="    op.prev = op\n"),
    dict(name='jump_target_off_by_one', file=OPCODES_PY, old="      op.target = ops[op.arg]\n", new="      op.target = ops[op.arg - 1]\n"),
    dict(name='jump_arg_is_offset', file=OPCODES_PY, old="      op.arg = op.argval = offset_to_index[op.argval]\n", new="      op.arg = op.argval = op.argval\n"),
    dict(name='jump_preset_arg_not_filled', file=OPCODES_PY, old="      op.arg = op.argval = op.target.index\n", new="      pass\n"),
    dict(name='edges_elif_last_target', file=BLOCKS_PY, old="    if last_op.target:\n      block.connect_outgoing(first_op_to_block[last_op.target])\n", new="    elif last_op.target:\n      block.connect_outgoing(first_op_to_block[last_op.target])\n"),
    dict(name='edges_no_fallthrough_for_last_jump', file=BLOCKS_PY, old="    if next_block and not last_op.no_next():\n", new="    if next_block and not last_op.no_next() and not last_op.target:\n"),
    dict(name='edges_incoming_not_recorded', file=BLOCKS_PY, old="    self.outgoing.add(target)\n    target.incoming.add(self)\n", new="    self.outgoing.add(target)\n"),
    dict(name='order_dup', file=CFGU_PY, old="    if node in seen:\n      continue\n    order.append(node)\n", new="    order.append(node)\n    if node in seen:\n      continue\n"),
    dict(name='order_skips_successors_in_seen_check', file=CFGU_PY, old="      if n not in queue:\n        queue[n] = predecessor_map[n] - seen\n", new="      if n not in queue and len(node.outgoing) < 3:\n        queue[n] = predecessor_map[n] - seen\n"),
    dict(name='order_wrong_root', file=CFGU_PY, old="  root = nodes[0]\n  predecessor_map", new="  root = nodes[-1]\n  predecessor_map"),
    dict(name='order_queue_all', file=CFGU_PY, old="  queue = {root: predecessor_map[root]}\n", new="  queue = dict(predecessor_map)\n"),
    dict(name='order_min_tiebreak_harmless', file=CFGU_PY, expect=0, old="        (len(predecessors), node.id, node)\n", new="        (-len(predecessors), node.id, node)\n"),
    dict(name='split_ignores_targets', file=BLOCKS_PY, old="        or (op.next in targets)\n        and (\n            not isinstance(op.next, opcodes.GET_ANEXT)\n            or python_version < (3, 12)\n        )\n", new=""),
    dict(name='split_no_flush_at_end', file=BLOCKS_PY, old="        or op.next is None\n", new=""),
    dict(name='split_keeps_code', file=BLOCKS_PY, old="      blocks.append(prev_block)\n      code = []\n    i += 1\n", new="      blocks.append(prev_block)\n    i += 1\n"),
    dict(name='split_skips_op_after_jump', file=BLOCKS_PY, old="      blocks.append(prev_block)\n      code = []\n    i += 1\n", new="      blocks.append(prev_block)\n      code = []\n      i += 1\n    i += 1\n"),
    dict(name='split_targets_only_jumps', file=BLOCKS_PY, old="  targets = {op.target for op in bytecode if op.target}\n", new="  targets = {op.target for op in bytecode if op.target and op.does_jump()}\n"),
]


def extra_obligations(repo):
  from engine import frames
  return frames.equality_frames('C16', repo, [('pytype/pyc/opcodes.py', 'Opcode', 'identity'), ('pytype/blocks/blocks.py', 'Block', 'identity')])
