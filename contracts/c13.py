"""C13 — calls bind arguments exactly as CPython does (SignedFunction._map_args)."""
import collections

import z3

from engine import sorts as S
from engine.core import Contract, Loop, Theory
from engine.values import V, Builtin, NONE, Obj

FB_PY = 'pytype/abstract/_function_base.py'
IF_PY = 'pytype/abstract/_interpreter_function.py'
SIG_PY = 'pytype/types/functions.py'
FN_PY = 'pytype/abstract/function.py'
INST_PY = 'pytype/abstract/_instances.py'


def build():
  T = Theory('C13')
  T.exact_slices = True
  Var = S.Uninterp('Var')
  Data = S.Uninterp('Data')
  Node = S.Uninterp('CFGNode')
  Ctx = S.Uninterp('Ctx')
  Prog = S.Uninterp('Program')
  Conv = S.Uninterp('Convert')
  AbsDict = S.Uninterp('AbsDict')
  SeqStr = S.Seq(S.STR)
  SeqVar = S.Seq(Var)
  DictSV = S.DictOf(S.STR, Var)
  SetStr = S.SetOf(S.STR)
  OptStr = S.Opt(S.STR)
  OptVar = S.Opt(Var)
  T.sorts.update(Var=Var)
  T.bind_obj(SIG_PY, 'Signature', collections.OrderedDict(
      param_names=SeqStr, posonly_count=S.INT, varargs_name=OptStr, kwonly_params=SeqStr,
      kwargs_name=OptStr, defaults=DictSV))
  T.bind_obj(FN_PY, 'Args', collections.OrderedDict(
      posargs=SeqVar, namedargs=DictSV, starargs=OptVar, starstarargs=OptVar))
  T.bind_obj(FB_PY, 'SignedFunction', collections.OrderedDict(
      signature=('obj', SIG_PY, 'Signature'), ctx=Ctx))
  T.bind_obj(IF_PY, 'CodeStub', collections.OrderedDict(varnames=SeqStr, argcount=S.INT, has_va=S.BOOL, has_kw=S.BOOL))
  T.bind_obj(IF_PY, 'InterpreterFunction', collections.OrderedDict(
      signature=('obj', SIG_PY, 'Signature'), ctx=Ctx, code=('obj', IF_PY, 'CodeStub'), nonstararg_count=S.INT,
      posonlyarg_count=S.INT, defaults=SeqVar, kw_defaults=DictSV))
  # code.has_varargs() / has_varkeywords(): flags of the code object
  T.opaque[(IF_PY, 'InterpreterFunction.has_varargs')] = lambda ex, bound, node: bound['self'].fields['code'].fields['has_va']
  T.opaque[(IF_PY, 'InterpreterFunction.has_kwargs')] = lambda ex, bound, node: bound['self'].fields['code'].fields['has_kw']
  from engine import source as _source

  def mk_signature(ex, args, kwargs, node):
    """function.Signature(name, param_names, posonly_count, varargs_name, kwonly_params, kwargs_name, defaults, annotations):
    the constructor stores its arguments (A-CTOR; annotation post-processing is not modelled)."""
    o = Obj('Signature', _source.load(ex.repo, SIG_PY), {})
    names = ['name', 'param_names', 'posonly_count', 'varargs_name', 'kwonly_params', 'kwargs_name', 'defaults', 'annotations']
    sorts_ = dict(param_names=SeqStr, posonly_count=S.INT, varargs_name=OptStr, kwonly_params=SeqStr, kwargs_name=OptStr, defaults=DictSV)
    for nm, a in zip(names, args):
      if nm in sorts_:
        from engine.execcomp import Gen
        if isinstance(a, V) and isinstance(a.sort, S.SetOf):
          a = ex.iter_to_seq(a, node)
        o.fields[nm] = ex.coerce(a, sorts_[nm])
    return o
  T.classes[(FN_PY, 'Signature')] = ('opaque', mk_signature)
  T.runtime_class = {(SIG_PY, 'Signature'): [(FN_PY, 'Signature')]}   # Signature objects are abstract.function.Signature instances
  T.inline.add((SIG_PY, 'Signature.posonly_params'))
  T.inline.add((FB_PY, 'SignedFunction.get_nondefault_params'))
  T.inline.add((FB_PY, 'SignedFunction.argcount'))

  # opaque constructors of cfg Variables: which argument each parameter receives
  copy = z3.Function('copy_var', Var.z3(), Var.z3())            # u.AssignToNewVariable(node)
  newvar = z3.Function('new_var', Data.z3(), Var.z3())          # program.NewVariable(data, [], node)
  data_of = z3.Function('data_of', Var.z3(), Data.z3())
  tuple_of = z3.Function('tuple_of', SeqVar.z3(), Var.z3())     # convert.build_tuple(node, seq)
  dict_of = z3.Function('dict_of', SetStr.z3(), z3.ArraySort(S.STR.z3(), Var.z3()), Var.z3())  # the dict {k: namedargs[k] for k in dom}
  unsolv = z3.Const('unsolvable', Var.z3())
  _a, _b = z3.Consts('ta tb', SeqVar.z3())
  # a tuple is determined by its elements (the array encoding may differ beyond the length)
  T.axioms.append(z3.ForAll([_a, _b], z3.Implies(SeqVar.eq(_a, _b), tuple_of(_a) == tuple_of(_b)),
                            patterns=[z3.MultiPattern(tuple_of(_a), tuple_of(_b))]))
  T.method_models[(Var.name, 'AssignToNewVariable')] = lambda ex, r, a, k: V(Var, copy(r.t))
  T.method_models[(OptVar.name, 'AssignToNewVariable')] = lambda ex, r, a, k: V(Var, copy(ex.coerce(r, Var).t))
  T.attr_models[(Var.name, 'data')] = lambda ex, r: V(Data, data_of(r.t))
  T.attr_models[(Ctx.name, 'program')] = lambda ex, r: V(Prog, Prog.fresh('program'))
  T.attr_models[(Ctx.name, 'convert')] = lambda ex, r: V(Conv, Conv.fresh('convert'))
  T.method_models[(Prog.name, 'NewVariable')] = lambda ex, r, a, k: V(Var, newvar(a[0].t))
  T.method_models[(Ctx.name, 'new_unsolvable')] = lambda ex, r, a, k: V(Var, unsolv)
  T.method_models[(Conv.name, 'build_tuple')] = lambda ex, r, a, k: V(Var, tuple_of(ex.coerce(a[1], SeqVar).t))
  kstate = {}

  def mk_absdict(ex, args, kwargs, node):
    v = V(AbsDict, AbsDict.fresh('absdict'))
    return v

  def absdict_update(ex, r, a, k):
    kstate[r.t.get_id()] = (ex.coerce(a[1], DictSV), ex.coerce(k['omit'], SeqStr))
    return NONE

  def absdict_to_variable(ex, r, a, k):
    na, omit = kstate[r.t.get_id()]
    x = S.STR.fresh('x')
    dom = z3.Lambda([x], z3.And(DictSV.has(na.t, x), z3.Not(SeqStr.contains(omit.t, x))))
    return V(Var, dict_of(dom, DictSV.vals(na.t)))
  T.classes[(INST_PY, 'Dict')] = ('opaque', mk_absdict)
  T.method_models[(AbsDict.name, 'update')] = absdict_update
  T.method_models[(AbsDict.name, 'to_variable')] = absdict_to_variable
  from engine.values import bval
  T.opaque[(FN_PY, 'has_visible_namedarg')] = lambda ex, bound, node: bval(True)
  for e in ('DuplicateKeyword', 'WrongKeywordArgs', 'MissingParameter', 'WrongArgCount'):
    T.exc_parents[e] = 'FailedFunctionCall'
  T.exc_parents['FailedFunctionCall'] = 'Exception'

  # -- spec: CPython's binding rules (language reference, "Calls") -----------
  B = lambda n, f: Builtin(n, f, needs_ex=True)

  def sigparts(sig):
    f = sig.fields
    P, KO = f['param_names'].t, f['kwonly_params'].t
    return (P, f['posonly_count'].t, KO, f['defaults'].t,
            z3.Not(OptStr.is_none(f['varargs_name'].t)), z3.Not(OptStr.is_none(f['kwargs_name'].t)))

  def rules(sig, args):
    P, po, KO, D, va, kw = sigparts(sig)
    n = SeqStr.len(P)
    pos = args.fields['posargs'].t
    K = args.fields['namedargs'].t
    npos = SeqVar.len(pos)
    i = z3.Int('bi')
    k = z3.Const('bk', S.STR.z3())
    inP = lambda x, lo: z3.Exists([i], z3.And(lo <= i, i < n, SeqStr.at(P, i) == x))
    inKO = lambda x: SeqStr.contains(KO, x)
    # 1 too many positional arguments (no *args)
    r1 = z3.Implies(z3.Not(va), npos <= n)
    # 2 multiple values: a positional-or-keyword parameter filled positionally is also named
    r2 = z3.ForAll([i], z3.Implies(z3.And(po <= i, i < npos, i < n), z3.Not(DictSV.has(K, SeqStr.at(P, i)))))
    # 3 unexpected keyword (no **kwargs): names neither a positional-or-keyword nor a keyword-only parameter
    r3 = z3.Implies(z3.Not(kw), z3.ForAll([k], z3.Implies(DictSV.has(K, k), z3.Or(inP(k, po), inKO(k)))))
    # 4 missing positional parameter (a positional-only one cannot be given by keyword)
    r4 = z3.ForAll([i], z3.Implies(z3.And(npos <= i, 0 <= i, i < n), z3.Or(
        DictSV.has(D, SeqStr.at(P, i)), z3.And(po <= i, DictSV.has(K, SeqStr.at(P, i))))))
    # 5 missing keyword-only parameter
    r5 = z3.ForAll([k], z3.Implies(inKO(k), z3.Or(DictSV.has(D, k), DictSV.has(K, k))))
    return [r1, r2, r3, r4, r5]

  def bind_ok(sig, args):
    return z3.And(*rules(sig, args))

  def wf_sig(sig):
    P, po, KO, D, va, kw = sigparts(sig)
    n = SeqStr.len(P)
    i, j = z3.Ints('wi wj')
    k = z3.Const('wk', S.STR.z3())
    f = sig.fields
    vn, kn = OptStr.val(f['varargs_name'].t), OptStr.val(f['kwargs_name'].t)
    empty = S.STR.literal('')
    allnames = lambda x: z3.Or(SeqStr.contains(P, x), SeqStr.contains(KO, x))
    return z3.And(
        0 <= po, po <= n,
        z3.ForAll([i, j], z3.Implies(z3.And(0 <= i, i < j, j < n), SeqStr.at(P, i) != SeqStr.at(P, j))),
        z3.ForAll([i, j], z3.Implies(z3.And(0 <= i, i < j, j < SeqStr.len(KO)), SeqStr.at(KO, i) != SeqStr.at(KO, j))),
        z3.ForAll([i, j], z3.Implies(z3.And(0 <= i, i < n, 0 <= j, j < SeqStr.len(KO)), SeqStr.at(P, i) != SeqStr.at(KO, j))),
        z3.ForAll([k], z3.Implies(DictSV.has(D, k), allnames(k))),
        z3.Implies(va, z3.And(vn != empty, z3.Not(allnames(vn)))),
        z3.Implies(kw, z3.And(kn != empty, z3.Not(allnames(kn)))),
        z3.Implies(z3.And(va, kw), vn != kn))

  def bound_value(sig, args, callargs):
    """On success every parameter holds the argument CPython gives it."""
    P, po, KO, D, va, kw = sigparts(sig)
    n = SeqStr.len(P)
    pos = args.fields['posargs'].t
    K = args.fields['namedargs'].t
    npos = SeqVar.len(pos)
    i = z3.Int('vi')
    k = z3.Const('vk', S.STR.z3())
    ca = callargs.t
    ext = z3.Const('extra_positionals', SeqVar.z3())
    f = sig.fields
    vn, kn = OptStr.val(f['varargs_name'].t), OptStr.val(f['kwargs_name'].t)
    got = lambda name: DictSV.get(ca, name)
    dflt = lambda name: newvar(data_of(DictSV.get(D, name)))
    pi = SeqStr.at(P, i)
    x = S.STR.fresh('x')
    rest = z3.Lambda([x], z3.And(DictSV.has(K, x), z3.Not(z3.Or(
        SeqStr.contains(SeqStr.slice(P, po, None), x), SeqStr.contains(KO, x)))))
    return z3.And(
        z3.ForAll([i], z3.Implies(z3.And(0 <= i, i < n), z3.And(DictSV.has(ca, pi), got(pi) == z3.If(
            i < npos, copy(SeqVar.at(pos, i)),
            z3.If(z3.And(po <= i, DictSV.has(K, pi)), copy(DictSV.get(K, pi)), dflt(pi)))))),
        z3.ForAll([k], z3.Implies(SeqStr.contains(KO, k), z3.And(DictSV.has(ca, k), got(k) == z3.If(
            DictSV.has(K, k), copy(DictSV.get(K, k)), dflt(k))))),
        z3.Implies(va, z3.And(DictSV.has(ca, vn), z3.Exists([ext], z3.And(
            got(vn) == tuple_of(ext),
            SeqVar.len(ext) == z3.If(npos > n, npos - n, 0),
            z3.ForAll([i], z3.Implies(z3.And(0 <= i, i < SeqVar.len(ext)),
                                      SeqVar.at(ext, i) == copy(SeqVar.at(pos, n + i)))))))),
        z3.Implies(kw, z3.And(DictSV.has(ca, kn), got(kn) == dict_of(rest, DictSV.vals(K)))))

  for ri in range(5):
    T.symbols['rule%d' % (ri + 1)] = B('rule%d' % (ri + 1), lambda ex, a, k, n, ri=ri: V(S.BOOL, rules(a[0], a[1])[ri]))
  T.symbols['copyv'] = B('copyv', lambda ex, a, k, n: V(Var, copy(ex.coerce(a[0], Var).t)))
  T.symbols['dflt'] = B('dflt', lambda ex, a, k, n: V(Var, newvar(data_of(ex.coerce(a[0], Var).t))))
  T.symbols['bind_ok'] = B('bind_ok', lambda ex, a, k, n: V(S.BOOL, bind_ok(a[0], a[1])))
  T.symbols['wf_sig'] = B('wf_sig', lambda ex, a, k, n: V(S.BOOL, wf_sig(a[0])))
  T.symbols['bound_value'] = B('bound_value', lambda ex, a, k, n: V(S.BOOL, bound_value(a[0], a[1], a[2])))
  T.assumptions += [
      'A-SPEC: bind_ok/bound_value transliterate the binding rules of the language reference; validated against real calls f(*a, **k) natively',
      'cfg.Variable operations (AssignToNewVariable, NewVariable, build_tuple, Dict.update/to_variable, new_unsolvable) are opaque constructors',
      'precondition: args.starargs is None and args.starstarargs is None (call shapes of the property; Args.simplify runs before)',
      'precondition: has_visible_namedarg(...) is True (every named argument is visible at the call node)',
      'precondition: the signature is well formed (distinct parameter names, posonly_count <= len(param_names), defaults only for parameters)',
      'two instances of _map_args: self a SignedFunction (argcount = len(param_names), base get_nondefault_params) and self an InterpreterFunction '
      '(argcount and get_nondefault_params overridden; precondition: the code object lists the parameter names the signature was built from -- '
      '_build_signature is unverified surround)',
  ]
  # InterpreterFunction: the function object of a `def`.  Its code object lists the parameter names; the signature is built
  # from it (_build_signature: unverified), so the two agree:
  CODE_MATCHES_SIG = [
      'self.code.argcount == len(self.signature.param_names)',
      'self.nonstararg_count == self.code.argcount + len(self.signature.kwonly_params)',
      'len(self.code.varnames) >= self.nonstararg_count',
      'all(self.code.varnames[k] == self.signature.param_names[k] for k in range(self.code.argcount))',
      # kwonly_params is built from a set: same names, any order
      'all(self.code.varnames[k] in self.signature.kwonly_params for k in range(self.code.argcount, self.nonstararg_count))',
      'all(any(self.code.varnames[k] == y for k in range(self.code.argcount, self.nonstararg_count)) for y in self.signature.kwonly_params)',
  ]
  # InterpreterFunction._build_signature was put under contract in an earlier revision (parameter names, keyword-only set, star names,
  # defaults); two of its obligations (sets/dicts built from slices) needed 20-40 minutes of z3 time on some runs, so it was taken
  # out again rather than kept as an unstable proof: it is unverified surround, sampled by the native sweep.
  PairSB = S.Tup(S.STR, S.BOOL)
  T.add(Contract(
      IF_PY, 'InterpreterFunction.get_nondefault_params', collections.OrderedDict(self=('obj', IF_PY, 'InterpreterFunction')),
      requires=['0 <= self.code.argcount', 'self.code.argcount <= self.nonstararg_count', 'self.nonstararg_count <= len(self.code.varnames)'],
      ensures=['len(result) == self.nonstararg_count',
               # every non-star parameter once, in declaration order, flagged keyword-only iff it comes after the positionals
               'all(result[k][0] == self.code.varnames[k] and result[k][1] == (k >= self.code.argcount) for k in range(len(result)))'],
      loops={0: Loop(['len(yielded) == i',
                      'all(yielded[k][0] == self.code.varnames[k] and yielded[k][1] == (k >= self.code.argcount) for k in range(i))'], index='i')},
      result=S.Seq(PairSB)))
  self_obj = ('obj', 'SignedFunction')
  T.add(Contract(
      FB_PY, 'SignedFunction._map_args',
      collections.OrderedDict(self=self_obj, node=Node, args=('obj', FN_PY, 'Args')),
      requires=['wf_sig(self.signature)', 'args.starargs is None', 'args.starstarargs is None'],
      raises={'WrongArgCount': 'not rule1(self.signature, args)',
              'DuplicateKeyword': 'not rule2(self.signature, args)',
              'WrongKeywordArgs': 'not rule3(self.signature, args)',
              'MissingParameter': 'not (rule4(self.signature, args) and rule5(self.signature, args))'},
      asserts={
          'posargs = [': ['len(posargs) == len(args.posargs)',
                          'all(posargs[k] == copyv(args.posargs[k]) for k in range(len(posargs)))'],
          'kws = {': ['all((y in kws) == (y in args.namedargs) for y in every("Str"))',
                      'all(implies(y in kws, kws[y] == copyv(args.namedargs[y])) for y in every("Str"))'],
          'callargs = {': ['all((y in callargs) == (y in sig.defaults) for y in every("Str"))',
                           'all(implies(y in callargs, callargs[y] == dflt(sig.defaults[y])) for y in every("Str"))'],
          'positional = dict(': [
              'all((y in positional) == any(sig.param_names[k] == y for k in range(min(len(posargs), len(sig.param_names))))'
              ' for y in every("Str"))',
              'all(positional[sig.param_names[k]] == posargs[k] for k in range(min(len(posargs), len(sig.param_names))))'],
          'callargs.update(positional)': [
              'all((y in callargs) == (y in sig.defaults or y in positional) for y in every("Str"))',
              'all(implies(y in positional, callargs[y] == positional[y]) for y in every("Str"))',
              'all(implies(y in sig.defaults and y not in positional, callargs[y] == dflt(sig.defaults[y])) for y in every("Str"))'],
          'callargs.update({': [
              'all((y in callargs) == (y in sig.defaults or y in positional or (y in kws and y not in posonly_names))'
              ' for y in every("Str"))',
              'all(implies(y in kws and y not in posonly_names, callargs[y] == kws[y]) for y in every("Str"))',
              'all(implies(y in positional and not (y in kws and y not in posonly_names), callargs[y] == positional[y])'
              ' for y in every("Str"))',
              'all(implies(y in sig.defaults and y not in positional and not (y in kws and y not in posonly_names),'
              ' callargs[y] == dflt(sig.defaults[y])) for y in every("Str"))'],
          'posonly_names = set(': [
              'all((y in posonly_names) == any(sig.param_names[k] == y for k in range(sig.posonly_count)) for y in every("Str"))'],
      },
      ensures=['bound_value(self.signature, args, result)'],
      loops={
          0: Loop(['all(implies(any(order[k] == y for k in range(i)), y not in kws) for y in every("Str"))'],
                  index='i', seq='order'),
          1: Loop(['all(chained[k][0] in callargs for k in range(j))',
                   'same(callargs, entry(1, callargs))'], index='j', seq='chained'),
      },
      result=DictSV,
      ghost={'callargs': DictSV, 'kws': DictSV, 'posargs': SeqVar, 'positional': DictSV, 'posonly_names': SetStr}))
  self_obj = ('obj', IF_PY, 'InterpreterFunction')
  T.add(Contract(
      FB_PY, 'SignedFunction._map_args',
      collections.OrderedDict(self=self_obj, node=Node, args=('obj', FN_PY, 'Args')),
      instance={'self': 'InterpreterFunction'},
      requires=['wf_sig(self.signature)', 'args.starargs is None', 'args.starstarargs is None'] + CODE_MATCHES_SIG,
      raises={'WrongArgCount': 'not rule1(self.signature, args)',
              'DuplicateKeyword': 'not rule2(self.signature, args)',
              'WrongKeywordArgs': 'not rule3(self.signature, args)',
              'MissingParameter': 'not (rule4(self.signature, args) and rule5(self.signature, args))'},
      asserts={
          'posargs = [': ['len(posargs) == len(args.posargs)',
                          'all(posargs[k] == copyv(args.posargs[k]) for k in range(len(posargs)))'],
          'kws = {': ['all((y in kws) == (y in args.namedargs) for y in every("Str"))',
                      'all(implies(y in kws, kws[y] == copyv(args.namedargs[y])) for y in every("Str"))'],
          'callargs = {': ['all((y in callargs) == (y in sig.defaults) for y in every("Str"))',
                           'all(implies(y in callargs, callargs[y] == dflt(sig.defaults[y])) for y in every("Str"))'],
          'positional = dict(': [
              'all((y in positional) == any(sig.param_names[k] == y for k in range(min(len(posargs), len(sig.param_names))))'
              ' for y in every("Str"))',
              'all(positional[sig.param_names[k]] == posargs[k] for k in range(min(len(posargs), len(sig.param_names))))'],
          'callargs.update(positional)': [
              'all((y in callargs) == (y in sig.defaults or y in positional) for y in every("Str"))',
              'all(implies(y in positional, callargs[y] == positional[y]) for y in every("Str"))',
              'all(implies(y in sig.defaults and y not in positional, callargs[y] == dflt(sig.defaults[y])) for y in every("Str"))'],
          'callargs.update({': [
              'all((y in callargs) == (y in sig.defaults or y in positional or (y in kws and y not in posonly_names))'
              ' for y in every("Str"))',
              'all(implies(y in kws and y not in posonly_names, callargs[y] == kws[y]) for y in every("Str"))',
              'all(implies(y in positional and not (y in kws and y not in posonly_names), callargs[y] == positional[y])'
              ' for y in every("Str"))',
              'all(implies(y in sig.defaults and y not in positional and not (y in kws and y not in posonly_names),'
              ' callargs[y] == dflt(sig.defaults[y])) for y in every("Str"))'],
          'posonly_names = set(': [
              'all((y in posonly_names) == any(sig.param_names[k] == y for k in range(sig.posonly_count)) for y in every("Str"))'],
      },
      ensures=['bound_value(self.signature, args, result)'],
      loops={
          0: Loop(['all(implies(any(order[k] == y for k in range(i)), y not in kws) for y in every("Str"))'],
                  index='i', seq='order'),
          1: Loop(['all(chained[k][0] in callargs for k in range(j))',
                   'same(callargs, entry(1, callargs))'], index='j', seq='chained'),
      },
      result=DictSV,
      ghost={'callargs': DictSV, 'kws': DictSV, 'posargs': SeqVar, 'positional': DictSV, 'posonly_names': SetStr}))
  return T


SURROUND = ['InterpreterFunction._build_signature (signature built from the code object; precondition CODE_MATCHES_SIG of the InterpreterFunction instance)',
            'how the VM builds Args and Signature from bytecode; Args.simplify', 'InterpreterFunction.call/_find_matching_sig (overload choice)',
            'PyTDFunction binding (_pytd_function.py)', 'error-to-log mapping (errors.py)', 'function.has_visible_namedarg']
NATIVE_IN_QUICK = True
MUTANTS = [

    dict(name='if_nondefault_skips_last', file=IF_PY, old="    for i in range(self.nonstararg_count):\n      yield self.code.varnames[i], i >= self.code.argcount\n", new="    for i in range(self.nonstararg_count - 1):\n      yield self.code.varnames[i], i >= self.code.argcount\n"),
    dict(name='if_kwonly_flag_off_by_one', file=IF_PY, old="      yield self.code.varnames[i], i >= self.code.argcount\n", new="      yield self.code.varnames[i], i > self.code.argcount\n"),
    dict(name='if_argcount_includes_kwonly', file=IF_PY, old="  def argcount(self, _) -> int:\n    return self.code.argcount\n", new="  def argcount(self, _) -> int:\n    return self.nonstararg_count\n"),

    dict(name='update_order_swapped', file=FB_PY,
         old="    callargs.update(positional)\n", new=""),
    dict(name='posonly_not_excluded_from_dup', file=FB_PY,
         old="    for key in set(positional) - posonly_names:\n", new="    for key in set(positional):\n"),
    dict(name='argcount_ge', file=FB_PY,
         old="    elif len(posargs) > self.argcount(node):\n", new="    elif len(posargs) >= self.argcount(node):\n"),
    dict(name='kwargs_allows_nothing_extra', file=FB_PY,
         old="    if extra_kws and not sig.kwargs_name:\n", new="    if extra_kws and sig.kwargs_name:\n"),
    dict(name='f4_reverted_kw_binds_posonly', file=FB_PY,
         old="    callargs.update({k: v for k, v in kws.items() if k not in posonly_names})\n",
         new="    callargs.update(kws)\n"),
    dict(name='omit_includes_posonly', file=FB_PY,
         old="        omit = sig.param_names[sig.posonly_count :] + sig.kwonly_params\n",
         new="        omit = sig.param_names + sig.kwonly_params\n"),
    dict(name='posonly_kw_check_dropped', file=FB_PY,
         old="    if posonly_kws and not sig.kwargs_name:\n      raise error_types.WrongKeywordArgs(sig, args, self.ctx, posonly_kws)\n",
         new=""),
    dict(name='varargs_off_by_one', file=FB_PY,
         old="      extraneous = posargs[self.argcount(node) :]\n", new="      extraneous = posargs[self.argcount(node) + 1 :]\n"),
]
