"""C10 — class linearisation agrees with CPython's MRO (pytd/mro.py, class_mixin.compute_mro)."""
import collections

import z3

from engine import sorts as S
from engine.core import Contract, Loop, Theory
from engine.values import V, Builtin

MRO_PY = 'pytype/pytd/mro.py'


def build():
  return [build_merge(), build_compute_mro()]


def build_merge():
  T = Theory('C10')
  E = S.Uninterp('Cls')
  SeqE = S.Seq(E)
  SS = S.Seq(SeqE)
  Hist = S.Seq(SS)
  OptE = S.Opt(E)
  T.sorts.update(Cls=E)
  ZE, ZS, ZSS = E.z3(), SeqE.z3(), SS.z3()
  singleton = z3.Function('is_singleton_class', ZE, z3.BoolSort())
  good = z3.Function('good', ZSS, ZE, z3.BoolSort())
  iscand = z3.Function('iscand', ZSS, z3.IntSort(), z3.BoolSort())
  stepp = z3.Function('StepP', ZSS, ZE, ZSS, z3.BoolSort())
  stepped = z3.Function('stepped', ZS, ZS, ZE, z3.BoolSort())
  allempty = z3.Function('allempty', ZSS, z3.BoolSort())
  distinct = z3.Function('distinct_seq', ZS, z3.BoolSort())
  s, t = z3.Consts('s t', ZSS)
  a, b = z3.Consts('a b', ZS)
  e = z3.Const('e', ZE)
  k, p, q, m = z3.Ints('k p q m')
  row = lambda x, i: SS.at(x, i)
  ln = SeqE.len
  at = SeqE.at
  T.axioms += [
      # CPython pmerge: a head is acceptable iff it occurs in the tail of no sequence
      z3.ForAll([s, e], good(s, e) == z3.Not(z3.Exists([k, p], z3.And(
          0 <= k, k < SS.len(s), 1 <= p, p < ln(row(s, k)), at(row(s, k), p) == e))), patterns=[good(s, e)]),
      # the candidate is the head of the FIRST sequence with an acceptable head
      z3.ForAll([s, m], iscand(s, m) == z3.And(
          0 <= m, m < SS.len(s), ln(row(s, m)) > 0, good(s, at(row(s, m), 0)),
          z3.ForAll([k], z3.Implies(z3.And(0 <= k, k < m), z3.Or(
              ln(row(s, k)) == 0, z3.Not(good(s, at(row(s, k), 0))))))), patterns=[iscand(s, m)]),
      # one sequence after a step: its head is dropped iff it is the candidate
      z3.ForAll([a, b, e], stepped(a, b, e) == z3.If(
          z3.And(ln(b) > 0, at(b, 0) == e),
          z3.And(ln(a) == ln(b) - 1, z3.ForAll([p], z3.Implies(z3.And(0 <= p, p < ln(a)), at(a, p) == at(b, p + 1)))),
          z3.And(ln(a) == ln(b), z3.ForAll([p], z3.Implies(z3.And(0 <= p, p < ln(a)), at(a, p) == at(b, p))))),
                patterns=[stepped(a, b, e)]),
      z3.ForAll([s, e, t], stepp(s, e, t) == z3.And(
          SS.len(t) == SS.len(s),
          z3.Exists([m], z3.And(iscand(s, m), at(row(s, m), 0) == e)),
          z3.ForAll([k], z3.Implies(z3.And(0 <= k, k < SS.len(s)), stepped(row(t, k), row(s, k), e)))),
                patterns=[stepp(s, e, t)]),
      z3.ForAll([s], allempty(s) == z3.ForAll([k], z3.Implies(z3.And(0 <= k, k < SS.len(s)), ln(row(s, k)) == 0)),
                patterns=[allempty(s)]),
      z3.ForAll([a], distinct(a) == z3.ForAll([p, q], z3.Implies(z3.And(0 <= p, p < q, q < ln(a)), at(a, p) != at(a, q))),
                patterns=[distinct(a)]),
  ]
  B = lambda n, f: Builtin(n, f, needs_ex=True)
  ce = lambda ex, v: ex.coerce(v, E).t
  T.symbols['good'] = B('good', lambda ex, a, k, n: V(S.BOOL, good(a[0].t, ce(ex, a[1]))))
  T.symbols['iscand'] = B('iscand', lambda ex, a, k, n: V(S.BOOL, iscand(a[0].t, ex.as_int(a[1]))))
  T.symbols['StepP'] = B('StepP', lambda ex, a, k, n: V(S.BOOL, stepp(a[0].t, ce(ex, a[1]), a[2].t)))
  T.symbols['stepped'] = B('stepped', lambda ex, a, k, n: V(S.BOOL, stepped(a[0].t, a[1].t, ce(ex, a[2]))))
  T.symbols['allempty'] = B('allempty', lambda ex, a, k, n: V(S.BOOL, allempty(a[0].t)))
  T.symbols['distinct'] = B('distinct', lambda ex, a, k, n: V(S.BOOL, distinct(a[0].t)))
  T.symbols['singleton'] = B('singleton', lambda ex, a, k, n: V(S.BOOL, singleton(ce(ex, a[0]))))
  m_ = z3.Int('m_')
  T.symbols['nocand'] = B('nocand', lambda ex, a, k, n: V(S.BOOL, z3.ForAll([m_], z3.Not(iscand(a[0].t, m_)))))
  for sn in (E.name, OptE.name):
    T.attr_models[(sn, 'getattr:SINGLETON')] = lambda ex, obj, default: V(S.BOOL, singleton(ex.coerce(obj, E).t))
  T.exc_parents['ValueError'] = 'Exception'
  T.assumptions += [
      'A-SPEC: StepP/iscand/good transliterate one iteration of CPython typeobject.c pmerge; the merge result is the unique '
      'chain of StepP steps from the input to the all-empty state (Step is deterministic)',
      'precondition: no element has SINGLETON (CPython has no such thing; that branch is dead and unverified)',
      'precondition: each input sequence has pairwise distinct elements (established by Dedup in MROMerge)',
      'no_alias(seqs): the inner lists are pairwise distinct objects (MROMerge builds fresh lists), so `s is not seq` is index inequality',
      'UnboundLocalError is not modelled (typed locals are havocked when first met inside a loop)',
      'classes are opaque values compared with ==',
  ]
  dedup_of = z3.Function('dedup_of', ZS, ZS, z3.BoolSort())
  T.axioms.append(z3.ForAll([a, b], dedup_of(a, b) == z3.And(
      distinct(a),
      z3.ForAll([e], SeqE.contains(a, e) == SeqE.contains(b, e)),
      z3.Implies(distinct(b), SeqE.eq(a, b))), patterns=[dedup_of(a, b)]))
  T.symbols['dedup_of'] = B('dedup_of', lambda ex, a, k, n: V(S.BOOL, dedup_of(a[0].t, a[1].t)))
  T.exc_parents['MROError'] = 'Exception'
  T.add(Contract(
      MRO_PY, 'Dedup', collections.OrderedDict(seq=SeqE),
      ensures=['distinct(result)',
               'all((y in result) == (y in seq) for y in every("Cls"))',
               'implies(distinct(seq), len(result) == len(seq) and all(result[k] == seq[k] for k in range(len(seq))))',
               'dedup_of(result, seq)', 'fresh(result)',
               'all(implies(all(not singleton(y) for y in seq), not singleton(x)) for x in result)'],
      loops={0: Loop([
          'all((y in seen) == any(seq[k] == y for k in range(i)) for y in every("Cls"))',
          'all((y in seen) == (y in result) for y in every("Cls"))',
          'distinct(result)',
          'implies(distinct(seq), len(result) == i and all(result[k] == seq[k] for k in range(i)))',
      ], index='i')},
      result=SeqE, ghost={'seen': S.SetOf(E), 'result': SeqE}))
  chain = 'all(StepP(hist[p], %s[p], hist[p + 1]) for p in range(len(%s)))'
  pre = ['all(distinct(x) for x in seqs)', 'all(all(not singleton(y) for y in x) for x in seqs)']
  T.add(Contract(
      MRO_PY, 'MergeSequences', collections.OrderedDict(seqs=SS),
      requires=pre,
      ensures=['same(hist[0], old(seqs))', chain % ('result', 'result'), 'allempty(hist[len(result)])',
               # every class of the result occurs in one of the input rows
               'all(any(x in old(seqs)[k] for k in range(len(old(seqs)))) for x in result)'],
      raises_ensures={'ValueError': ['same(hist[0], old(seqs))', chain % ('res', 'res'),
                                     'not allempty(hist[len(res)])', 'nocand(hist[len(res)])']},
      loops={
          0: Loop(['same(hist[0], old(seqs))', chain % ('res', 'res'), 'same(hist[len(res)], seqs)',
                   'all(any(x in old(seqs)[k] for k in range(len(old(seqs)))) for x in res)',
                   'len(seqs) == len(old(seqs))', 'all(all(y in old(seqs)[k] for y in seqs[k]) for k in range(len(seqs)))'] + pre,
                  ghost_init=['hist = const_seq(seqs)'],
                  ghost_end=['hist = store(hist, len(res), seqs)'],
                  lemmas=['len(head(0, seqs)[i]) > 0 and same(head(0, seqs)[i][0], cand)',
                          'all(head(0, seqs)[i][p] != cand for p in range(1, len(head(0, seqs)[i])))',
                          'all(all(implies(k != i, head(0, seqs)[k][p] != cand) for p in range(1, len(head(0, seqs)[k])))'
                          ' for k in range(len(head(0, seqs))))',
                          'good(head(0, seqs), cand)',
                          'iscand(head(0, seqs), i)',
                          'len(seqs) == len(head(0, seqs))',
                          'all(stepped(seqs[k], head(0, seqs)[k], cand) for k in range(len(seqs)))',
                          'StepP(head(0, seqs), cand, seqs)', 'len(res) == len(head(0, res)) + 1',
                          'same(res[len(res) - 1], cand)',
                          'all(same(res[p], head(0, res)[p]) for p in range(len(res) - 1))']),
          1: Loop(['same(seqs, entry(1, seqs))',
                   'all(len(seqs[k]) == 0 or not good(seqs, seqs[k][0]) for k in range(i))',
                   'implies(any(len(seqs[k]) > 0 for k in range(i)), cand is None)'], index='i'),
          2: Loop(['len(seqs) == len(entry(2, seqs))', 'all(all(y in entry(2, seqs)[k] for y in seqs[k]) for k in range(len(seqs)))',
                   'all(stepped(seqs[k], entry(2, seqs)[k], cand) for k in range(m))',
                   'all(same(seqs[k], entry(2, seqs)[k]) for k in range(m, len(seqs)))'], index='m'),
      },
      result=SeqE, ghost={'res': SeqE, 'cand': OptE, 'hist': Hist}, no_alias=('seqs',),
      ghost_out={'hist': Hist, 'res': SeqE}))
  nos = 'all(all(not singleton(y) for y in x) for x in input_seqs)'
  dd = ['len(seqs) == len(input_seqs)', 'all(dedup_of(seqs[k], input_seqs[k]) for k in range(len(seqs)))',
        'same(hist[0], seqs)']
  T.add(Contract(
      MRO_PY, 'MROMerge', collections.OrderedDict(input_seqs=SS),
      requires=[nos],
      ensures=dd + [chain % ('result', 'result'), 'allempty(hist[len(result)])',
                    'all(any(x in input_seqs[k] for k in range(len(input_seqs))) for x in result)'],
      raises_ensures={'MROError': dd + [chain % ('res', 'res'), 'not allempty(hist[len(res)])', 'nocand(hist[len(res)])']},
      result=SeqE, ghost={'seqs': SS}, ghost_out={'hist': Hist, 'res': SeqE, 'seqs': SS}))
  return T


CM_PY = 'pytype/abstract/class_mixin.py'
AU_PY = 'pytype/abstract/abstract_utils.py'


def build_compute_mro():
  """Second theory: Class.compute_mro -- builds the rows [[C], L[B1], ..., L[Bn], [B1..Bn]] (with parameterised classes
  replaced by their base class), hands them to MROMerge (contract proved in the first theory) and maps the result back."""
  T = build_merge()
  for c in T.contracts.values():
    c.verify = False
    c.note = 'proved in the first theory'
  T.lemmas = []
  E = T.sorts['Cls']
  SeqE = S.Seq(E)
  SS = S.Seq(SeqE)
  ZE = E.z3()
  Tok = S.Uninterp('BasesVars')
  mro_of = z3.Function('mro_of', ZE, SeqE.z3())
  is_param = z3.Function('is_ParameterizedClass', ZE, z3.BoolSort())
  base_cls = z3.Function('base_cls', ZE, ZE)
  bases_tok = z3.Function('bases_of', ZE, Tok.z3())
  mro_bases = z3.Function('get_mro_bases', Tok.z3(), SeqE.z3())
  singleton = z3.Function('is_singleton_class', ZE, z3.BoolSort())
  strip = lambda t: z3.If(is_param(t), base_cls(t), t)
  T.attr_models[(E.name, 'mro')] = lambda ex, v: V(SeqE, mro_of(v.t))
  T.attr_models[(E.name, 'base_cls')] = lambda ex, v: V(E, base_cls(v.t))
  T.attr_models[(E.name, 'isinstance:ParameterizedClass')] = lambda ex, v: is_param(v.t)
  T.method_models[(E.name, 'bases')] = lambda ex, recv, a, k: V(Tok, bases_tok(recv.t))
  T.opaque[(AU_PY, 'get_mro_bases')] = lambda ex, bound, node: V(SeqE, mro_bases(ex.coerce(bound['bases'], Tok).t))
  from engine.values import ClassRef, ModuleRef
  # `_abstract` is bound under `if TYPE_CHECKING / else` in class_mixin.py: the late-bound pytype.abstract.abstract module
  T.symbols['_abstract'] = ModuleRef(None, '_abstract')
  T.builtin_models = {'_abstract.ParameterizedClass': ClassRef(None, 'ParameterizedClass')}
  B = lambda n, f: Builtin(n, f, needs_ex=True)
  T.symbols['strip'] = B('strip', lambda ex, a, k, n: V(E, strip(ex.coerce(a[0], E).t)))
  T.symbols['bases0'] = B('bases0', lambda ex, a, k, n: V(SeqE, mro_bases(bases_tok(ex.coerce(a[0], E).t))))
  T.symbols['mro_of'] = B('mro_of', lambda ex, a, k, n: V(SeqE, mro_of(ex.coerce(a[0], E).t)))
  T.assumptions += [
      'second theory (Class.compute_mro): classes are opaque values; base.mro, base.base_cls and isinstance(base, ParameterizedClass) are stable reads; '
      'abstract_utils.get_mro_bases(self.bases()) is an opaque function of the class (it picks data[0] of every base variable: unverified)',
      'strip(c) = c.base_cls for a ParameterizedClass, c otherwise: CPython linearises the unparameterised classes',
      'precondition: no class involved is a SINGLETON (as in the first theory)',
  ]
  nrows = 'len(bases0(self)) + 2'
  row_of = ('(strip(self) if k == 0 and p == 0 else (strip(mro_of(bases0(self)[k - 1])[p]) if k <= len(bases0(self)) else strip(bases0(self)[p])))')
  rows_ok = lambda nb, upto: [
      'all(len(%s[k]) == (1 if k == 0 else (len(mro_of(bases0(self)[k - 1])) if k <= len(bases0(self)) else len(bases0(self)))) for k in range(%s))' % (nb, upto),
      'all(all(%s[k][p] == %s for p in range(len(%s[k]))) for k in range(%s))' % (nb, row_of, nb, upto),
  ]
  chain = 'all(StepP(hist[p], %s, hist[p + 1]) for p in range(len(%s)))'
  nos = ['not singleton(strip(self))', 'all(not singleton(strip(y)) for y in bases0(self))',
         'all(all(not singleton(strip(y)) for y in mro_of(x)) for x in bases0(self))']
  T.add(Contract(
      CM_PY, 'Class.compute_mro', collections.OrderedDict(self=E),
      requires=nos,
      ensures=[
          # CPython refuses a class statement that repeats a base
          'distinct(bases0(self))',
          # the rows handed to the merge are [[C], L[B1], ..., L[Bn], [B1, ..., Bn]] with parameterised classes stripped ...
          'len(newbases) == %s' % nrows] + rows_ok('newbases', 'len(newbases)') + [
          'len(seqs) == len(newbases)', 'all(dedup_of(seqs[k], newbases[k]) for k in range(len(seqs)))', 'same(hist[0], seqs)',
          # ... and the result, stripped, is the chain of CPython pmerge steps from them to the all-empty state
          chain % ('strip(result[p])', 'result'), 'allempty(hist[len(result)])',
      ],
      raises_ensures={'MROError': [
          # an mro-error is reported only if CPython refuses the class statement: a repeated base, or a merge that gets stuck
          'not distinct(bases0(self)) or (len(seqs) == %s and same(hist[0], seqs) and %s and not allempty(hist[len(res)]) and nocand(hist[len(res)]))' % (
              nrows, chain % ('res[p]', 'res'))]},
      loops={
          0: Loop(['len(bases) == %s' % nrows, 'len(newbases) == i'] + rows_ok('newbases', 'i') + [
              'all(len(bases[k]) == (1 if k == 0 else (len(mro_of(bases0(self)[k - 1])) if k <= len(bases0(self)) else len(bases0(self)))) for k in range(len(bases)))',
              'all(all(strip(bases[k][p]) == %s for p in range(len(bases[k]))) for k in range(len(bases)))' % row_of,
              'all(implies(b in base2cls, strip(base2cls[b]) == b) for b in every("Cls"))',
              'all(all(newbases[k][p] in base2cls for p in range(len(newbases[k]))) for k in range(i))',
              'distinct(bases0(self))',
          ], index='i', seq='S_'),
          1: Loop(['len(baselist) == j', 'all(baselist[p] == strip(row[p]) for p in range(j))',
                   'all(implies(b in base2cls, strip(base2cls[b]) == b) for b in every("Cls"))',
                   'all(implies(b in entry(1, base2cls), b in base2cls) for b in every("Cls"))',
                   'all(baselist[p] in base2cls for p in range(j))',
                   'same(newbases, entry(1, newbases))'], index='j', seq='R_'),
      },
      result=SeqE,
      ghost={'newbases': SS, 'baselist': SeqE, 'base2cls': S.DictOf(E, E), 'row': SeqE,
             'seqs': SS, 'hist': S.Seq(SS), 'res': SeqE}))
  return T


NATIVE_IN_QUICK = True
SURROUND = ['abstract_utils.get_mro_bases (which base classes are considered: opaque in the compute_mro contract)',
            'mro._ComputeMRO / GetBasesInMRO (stub classes)', 'attribute.get_attribute/_get_class_attribute walking cls.mro',
            'vm_utils.make_class turning MROError into [mro-error]', 'abstract_utils.get_mro_bases']
MUTANTS = [
    # class_mixin.compute_mro (second theory)
    dict(name='cm_no_bases_row', file=CM_PY, old="    bases = [[self]] + [list(base.mro) for base in bases] + [list(bases)]\n",
         new="    bases = [[self]] + [list(base.mro) for base in bases]\n"),
    dict(name='cm_no_dup_check', file=CM_PY, old="    if len(set(bases)) != len(bases):\n", new="    if False:\n"),
    dict(name='cm_self_missing', file=CM_PY, old="    bases = [[self]] + [list(base.mro) for base in bases] + [list(bases)]\n",
         new="    bases = [list(base.mro) for base in bases] + [list(bases)]\n"),
    dict(name='cm_param_not_stripped', file=CM_PY, old="          baselist.append(base.base_cls)\n", new="          baselist.append(base)\n"),
    dict(name='cm_mro_tail_only', file=CM_PY, old="    bases = [[self]] + [list(base.mro) for base in bases] + [list(bases)]\n",
         new="    bases = [[self]] + [list(base.mro)[1:] for base in bases] + [list(bases)]\n"),
    dict(name='tail_includes_head', file=MRO_PY,
         old="if any(s for s in seqs if cand in s[1:] and s is not seq):", new="if any(s for s in seqs if cand in s and s is not seq):"),
    dict(name='advance_only_chosen', file=MRO_PY,
         old="        for other_seq in seqs:\n          if other_seq and other_seq[0] == cand:\n            del other_seq[0]\n",
         new="        del seq[0]\n"),
    dict(name='no_reject', file=MRO_PY,
         old="        cand = None  # reject candidate\n", new="        pass\n"),
    dict(name='tail_from_2', file=MRO_PY,
         old="cand in s[1:] and s is not seq", new="cand in s[2:] and s is not seq"),
    dict(name='dedup_keeps_last', file=MRO_PY,
         old="    if s not in seen:\n      result.append(s)\n    seen.add(s)\n",
         new="    if s not in seen:\n      result.append(s)\n"),
    dict(name='mromerge_swallows_error', file=MRO_PY,
         old="    raise MROError(input_seqs) from e\n", new="    return []\n"),
    dict(name='own_tail_check_harmless', file=MRO_PY, expect=0,
         old="cand in s[1:] and s is not seq", new="cand in s[1:]"),
    dict(name='del_wrong_index', file=MRO_PY,
         old="            del other_seq[0]\n", new="            del other_seq[-1]\n"),
]
