"""C09 — CFG reachability answers equal true graph reachability (reachable.cc, typegraph.cc)."""
import collections

import z3

from engine import cxxfront
from engine import sorts as S
from engine import source
from engine.core import Contract, Loop, Theory
from engine.values import V, Builtin

CC = 'pytype/typegraph/reachable.cc'
NS = 'devtools_python_typegraph::'
FUNCS = ['_node_bit', 'ReachabilityAnalyzer::add_node', 'ReachabilityAnalyzer::add_connection',
         'ReachabilityAnalyzer::is_reachable']


def build(repo):
  return [build_matrix(repo), build_glue(repo)]


def build_matrix(repo):
  T = Theory('C09')
  texts = []
  for q in FUNCS:
    src, _ = cxxfront.lower_function(repo, CC, NS + q)
    texts.append(src)
  lowered = '\n'.join(texts)
  source.register_lowered(repo, CC, lowered)
  T.lowered = lowered
  Row = S.Seq(S.BV64)
  Mat = S.Seq(Row)
  T.bind_obj(CC, 'ReachabilityAnalyzer', collections.OrderedDict(adj_=Mat, num_nodes_=S.INT, size_=S.INT))
  T.axioms += S.pow2_facts()
  k, j = z3.Ints('k j')
  zero = z3.BitVecVal(0, 64)
  T.lemmas += [
      ('pow2_nonzero', z3.ForAll([k], z3.Implies(z3.And(0 <= k, k < 64), S.POW2(k) != zero), patterns=[S.POW2(k)])),
      ('pow2_disjoint', z3.ForAll([j, k], z3.Implies(z3.And(0 <= j, j < 64, 0 <= k, k < 64, j != k),
                                                     (S.POW2(j) & S.POW2(k)) == zero),
                                  patterns=[z3.MultiPattern(S.POW2(j), S.POW2(k))])),
  ]

  def bit(mat, i, jj):
    return (Row.at(Mat.at(mat, i), jj / 64) & S.POW2(jj % 64)) != zero

  def RI(o):
    mat, n, sz = o.fields['adj_'].t, o.fields['num_nodes_'].t, o.fields['size_'].t
    i, b = z3.Ints('ri rb')
    return z3.And(
        n >= 0, Mat.len(mat) == n,
        z3.Implies(n >= 1, z3.And(
            64 * sz >= n, sz >= 1, sz <= n,   # enough words for n columns (not necessarily the minimum)
            z3.ForAll([b], z3.Implies(z3.And(0 <= b, b < n), b / 64 < sz)),   # consequence, stated to help the solver
            z3.ForAll([i], z3.Implies(z3.And(0 <= i, i < n), Row.len(Mat.at(mat, i)) == sz)),
            # padding bits are clear (a later add_node must not inherit a stale 1 in its new column)
            z3.ForAll([i, b], z3.Implies(z3.And(0 <= i, i < n, n <= b, b < 64 * sz), z3.Not(bit(mat, i, b)))))))
  B = lambda nm, f: Builtin(nm, f, needs_ex=True)
  T.symbols['RI'] = B('RI', lambda ex, a, k, n: V(S.BOOL, RI(a[0])))
  T.symbols['R'] = B('R', lambda ex, a, k, n: V(S.BOOL, bit(a[0].fields['adj_'].t if hasattr(a[0], 'fields') else a[0].t,
                                                        ex.as_int(a[1]), ex.as_int(a[2]))))
  T.symbols['pow2'] = B('pow2', lambda ex, a, k, n: V(S.BV64, S.POW2(ex.as_int(a[0]))))
  T.symbols['word0'] = V(S.BV64, zero)
  T.assumptions += [
      'A-SHIFT: `1l << k` is the word with only bit k set for 0 <= k <= 63 (two\'s complement; formally UB for k = 63 before C++20)',
      'A-STL: std::vector::resize(n, v) keeps the first min(old, n) elements and fills the rest with v; operator[] in bounds (an obligation here) returns that element',
      'A-MEM: no use-after-free / aliasing between distinct vectors; `T* p = row.data()` is the row itself',
      'int is 32-bit, size_t and int64_t are 64-bit (LP64); mathematical integers with in-range obligations at every int/size_t arithmetic result',
      'ghost: the reflexive-transitive closure statement is discharged in Lean from the z3-proved one-step postconditions (lean/Closure.lean)',
  ]
  INTMAX = 2 ** 31 - 1
  T.add(Contract(CC, '_node_bit', collections.OrderedDict(node_id=S.INT),
                 requires=['node_id >= 0'], ensures=['same(result, pow2(node_id % 64))'], result=S.BV64))
  me = ('obj', 'ReachabilityAnalyzer')
  T.add(Contract(
      CC, 'add_node', collections.OrderedDict(self=me),
      requires=['RI(self)', 'self.num_nodes_ < %d' % INTMAX],
      ensures=[
          'result == old(self.num_nodes_)', 'self.num_nodes_ == old(self.num_nodes_) + 1', 'RI(self)',
          'all(all(R(self, i, j) == R(old(self), i, j) for j in range(old(self.num_nodes_))) for i in range(old(self.num_nodes_)))',
          'R(self, result, result)',
          'all(not R(self, i, result) and not R(self, result, i) for i in range(result))',
      ],
      loops={0: Loop([
          'len(self.adj_) == self.num_nodes_',
          'self.num_nodes_ == head0_n', 'self.size_ == head0_size',
          'all(len(self.adj_[k]) == self.size_ for k in range(i))',
          'all(all(same(self.adj_[k][w], entry(0, self.adj_)[k][w]) for w in range(len(entry(0, self.adj_)[k]))) for k in range(i))',
          'all(all(same(self.adj_[k][w], word0) for w in range(len(entry(0, self.adj_)[k]), self.size_)) for k in range(i))',
          'all(same(self.adj_[k], entry(0, self.adj_)[k]) for k in range(i, self.num_nodes_))',
      ], index='i', ghost_init=['head0_n = self.num_nodes_', 'head0_size = self.size_'])},
      asserts={'self.adj_[to_size(node)][': [
          'all(all(same(self.adj_[k][w], old(self.adj_)[k][w]) for w in range(len(old(self.adj_)[k]))) for k in range(node))',
          'all(all(same(self.adj_[k][w], word0) for w in range(len(old(self.adj_)[k]), self.size_)) for k in range(node))',
          'all(implies(w != node // 64, same(self.adj_[node][w], word0)) for w in range(self.size_))',
          'same(self.adj_[node][node // 64], pow2(node % 64))',
          'all(all(not R(self, k, b) for b in range(self.num_nodes_, 64 * self.size_)) for k in range(node))',
          'all(not R(self, node, b) for b in range(self.num_nodes_, 64 * self.size_))',
      ]},
      result=S.INT, ghost={'head0_n': S.INT, 'head0_size': S.INT}))
  inrange = ['RI(self)', '0 <= src and src < self.num_nodes_', '0 <= dst and dst < self.num_nodes_',
             'self.num_nodes_ <= %d' % INTMAX]
  upd = ('ite(bvnz(bvand(old(self.adj_)[k][src // 64], pow2(src % 64))),'
         ' bvor(old(self.adj_)[k][w], old(self.adj_)[dst][w]), old(self.adj_)[k][w])')
  frame = ['self.num_nodes_ == old(self.num_nodes_)', 'self.size_ == old(self.size_)',
           'len(self.adj_) == len(old(self.adj_))',
           'all(len(self.adj_[k]) == len(old(self.adj_)[k]) for k in range(self.num_nodes_))']
  T.add(Contract(
      CC, 'add_connection', collections.OrderedDict(self=me, src=S.INT, dst=S.INT),
      requires=inrange,
      ensures=frame + [
          'all(all(same(self.adj_[k][w], %s) for w in range(self.size_)) for k in range(self.num_nodes_))' % upd,
          # the view-level statement: R' = R  union  R(.,src) x R(dst,.)
          'all(all(R(self, i, j) == (R(old(self), i, j) or (R(old(self), i, src) and R(old(self), dst, j)))'
          ' for j in range(self.num_nodes_)) for i in range(self.num_nodes_))',
          'RI(self)',
      ],
      loops={
          0: Loop(frame + [
              'all(all(same(self.adj_[k][w], %s) for w in range(self.size_)) for k in range(i))' % upd,
              'all(all(same(self.adj_[k][w], old(self.adj_)[k][w]) for w in range(self.size_)) for k in range(i, self.num_nodes_))',
          ], index='i'),
          1: Loop(frame + [
              'all(all(same(self.adj_[k][w], %s) for w in range(self.size_)) for k in range(i))' % upd,
              'all(all(same(self.adj_[k][w], old(self.adj_)[k][w]) for w in range(self.size_)) for k in range(i + 1, self.num_nodes_))',
              'all(same(self.adj_[i][w], bvor(old(self.adj_)[i][w], old(self.adj_)[dst][w])) for w in range(j))',
              'all(same(self.adj_[i][w], old(self.adj_)[i][w]) for w in range(j, self.size_))',
          ], index='j'),
      }))
  T.add(Contract(
      CC, 'is_reachable', collections.OrderedDict(self=me, src=S.INT, dst=S.INT),
      requires=inrange,
      ensures=['result == R(self, src, dst)',
               'same(self.adj_, old(self.adj_)) and self.num_nodes_ == old(self.num_nodes_) and self.size_ == old(self.size_)'],
      result=S.BOOL))
  return T


TG = 'pytype/typegraph/typegraph.cc'
GLUE = [('CFGNode', 'CFGNode::ConnectTo'), ('CFGNode', 'CFGNode::id'), ('Program', 'Program::is_reachable')]
# the view-level clause of add_connection proved in the first theory, restated over the abstract relation
ADD_CONNECTION_VIEW = ('all(all((j in self.rel[i]) == ((j in old(self.rel)[i]) or ((src in old(self.rel)[i]) and (j in old(self.rel)[dst])))'
                       ' for j in range(len(self.rel))) for i in range(len(self.rel)))')


def build_glue(repo):
  """Second theory: the typegraph.cc glue (CFGNode::ConnectTo, Program::is_reachable) over heap-allocated nodes.

  The analyzer is abstract here: `rel[i]` = the set of j with R(i, j); add_connection / is_reachable are used
  through the view-level clauses proved for reachable.cc in the first theory."""
  T = Theory('C09')
  per_class = {}
  for cls, q in GLUE:
    src, _ = cxxfront.lower_function(repo, TG, NS + q)
    per_class.setdefault(cls, []).append(src)
  text = ''
  for cls, fns in per_class.items():
    text += 'class %s:\n' % cls
    for f in fns:
      text += ''.join('  ' + l + '\n' for l in f.splitlines()) + '\n'
  source.register_lowered(repo, TG, text)
  T.lowered = text
  NodeRef = S.Uninterp('CFGNodeRef')
  ProgRef = S.Uninterp('ProgramRef')
  RARef = S.Uninterp('AnalyzerRef')
  Rel = S.Seq(S.SetOf(S.INT))
  SeqN = S.Seq(NodeRef)
  T.bind_heap(TG, 'CFGNode', NodeRef, collections.OrderedDict(
      id_=S.INT, incoming_=SeqN, outgoing_=SeqN, program_=ProgRef, backward_reachability_=RARef))
  T.bind_heap(TG, 'Program', ProgRef, collections.OrderedDict(backward_reachability_=RARef))
  T.bind_heap(TG, 'ReachabilityAnalyzer', RARef, collections.OrderedDict(rel=Rel))
  from engine.values import NONE
  T.method_models[(ProgRef.name, 'InvalidateSolver')] = lambda ex, recv, a, k: NONE    # C08's subject; no effect on reachability state
  me = RARef
  c_add = Contract(TG, 'ReachabilityAnalyzer.add_connection', collections.OrderedDict(self=me, src=S.INT, dst=S.INT), verify=False,
                   requires=['0 <= src and src < len(self.rel)', '0 <= dst and dst < len(self.rel)'],
                   ensures=['len(self.rel) == len(old(self.rel))', ADD_CONNECTION_VIEW],
                   heap_mutates=(('self', 'rel'),),
                   note='view-level clause proved for reachable.cc::add_connection in the first theory (R\' = R u R(.,src) x R(dst,.))')
  c_isr = Contract(TG, 'ReachabilityAnalyzer.is_reachable', collections.OrderedDict(self=me, src=S.INT, dst=S.INT), verify=False,
                   requires=['0 <= src and src < len(self.rel)', '0 <= dst and dst < len(self.rel)'],
                   ensures=['result == (dst in self.rel[src])'], result=S.BOOL,
                   note='proved for reachable.cc::is_reachable in the first theory (result == R(src, dst))')
  T.add(c_add)
  T.add(c_isr)
  T.method_models[(RARef.name, 'add_connection')] = lambda ex, recv, a, k: ex.call_contract(c_add, dict(self=recv, src=a[0], dst=a[1]), None)
  T.method_models[(RARef.name, 'is_reachable')] = lambda ex, recv, a, k: ex.call_contract(c_isr, dict(self=recv, src=a[0], dst=a[1]), None)
  T.inline.add((TG, 'CFGNode.id'))
  T.assumptions += [
      'second theory (typegraph.cc glue): CFGNode / Program / ReachabilityAnalyzer objects live in a heap (Burstall); pointers are references; '
      'std::vector<CFGNode*> is a list; unique_ptr::operator-> is the owned object (A-MEM); Program::InvalidateSolver does not touch reachability state',
      'the analyzer is abstract in the second theory: rel[i] = {j | R(i, j)}; add_connection and is_reachable are used through the view-level '
      'clauses proved for reachable.cc in the first theory',
      'the relation R kept by the analyzer is the BACKWARD relation: ConnectTo(a -> b) records (b, a); Program::is_reachable(src, dst) asks R(dst, src); '
      'that its closure is the converse of the forward closure is the Lean lemma rtc_swap',
  ]
  inrange = lambda x: '0 <= %s.id_ and %s.id_ < len(%s.backward_reachability_.rel) and %s.id_ < 2147483647' % (x, x, x, x)
  A = 'self.backward_reachability_'
  refl_trans = ['all(i in %s.rel[i] for i in range(len(%s.rel)))' % (A, A),
                'all(all(all(implies(j in %s.rel[i] and k in %s.rel[j], k in %s.rel[i]) for k in range(len(%s.rel))) for j in range(len(%s.rel)))'
                ' for i in range(len(%s.rel)))' % (A, A, A, A, A, A),
                # members of a row are node ids
                'all(all(implies(j in %s.rel[i], 0 <= j and j < len(%s.rel)) for j in every("Int")) for i in range(len(%s.rel)))' % (A, A, A)]
  out_inv = ('all(0 <= self.outgoing_[m].id_ and self.outgoing_[m].id_ < len(%s.rel) and (self.id_ in %s.rel[self.outgoing_[m].id_])'
             ' for m in range(len(self.outgoing_)))' % (A, A))
  T.add(Contract(
      TG, 'CFGNode.ConnectTo', collections.OrderedDict(self=NodeRef, node=NodeRef),
      requires=['self.backward_reachability_ == node.backward_reachability_', inrange('self'), inrange('node'),
                '(self == node) == (self.id_ == node.id_)'] + refl_trans + [out_inv],
      ensures=[
          'len(%s.rel) == len(old(%s.rel))' % (A, A),
          # the property at this level: after a.ConnectTo(b) the backward relation is the old one plus everything that follows from the
          # edge (b, a) -- also when the call returns early (self edge, duplicate edge): then nothing new follows
          'all(all((j in %s.rel[i]) == ((j in old(%s.rel)[i]) or ((node.id_ in old(%s.rel)[i]) and (j in old(%s.rel)[self.id_])))'
          ' for j in range(len(%s.rel))) for i in range(len(%s.rel)))' % (A, A, A, A, A, A),
          # every recorded forward edge is in the relation (what justifies the duplicate-edge early return next time)
          out_inv,
          'aux:implies(self != node, any(self.outgoing_[m] == node for m in range(len(self.outgoing_))))',
      ],
      asserts={'self.outgoing_ = vpush(self.outgoing_, node)': ['self.outgoing_[len(self.outgoing_) - 1] == node']},
      loops={0: Loop(['same(self.outgoing_, old(self.outgoing_))', 'same(node.incoming_, old(node.incoming_))',
                      'same(%s.rel, old(%s.rel))' % (A, A),
                      'len(S_) == len(self.outgoing_)', 'all(S_[m] == self.outgoing_[m] for m in range(len(S_)))',
                      'aux:all(self.outgoing_[m] != node for m in range(i))'], index='i', seq='S_')}))
  T.add(Contract(
      TG, 'Program.is_reachable', collections.OrderedDict(self=ProgRef, src=NodeRef, dst=NodeRef),
      requires=['0 <= src.id_ and src.id_ < len(self.backward_reachability_.rel) and src.id_ < 2147483647',
                '0 <= dst.id_ and dst.id_ < len(self.backward_reachability_.rel) and dst.id_ < 2147483647'],
      ensures=['result == (src.id_ in self.backward_reachability_.rel[dst.id_])',
               'same(self.backward_reachability_.rel, old(self.backward_reachability_.rel))'],
      result=S.BOOL))
  return T


def extra_obligations(repo):
  """The closure lemmas: checked by Lean on every run (no sorry/axiom allowed)."""
  import os, re, subprocess, time
  from engine.core import Obligation
  lean_file = os.path.join(os.path.dirname(os.path.dirname(os.path.abspath(__file__))), 'lean', 'Closure.lean')
  txt = open(lean_file).read()
  t0 = time.time()
  p = subprocess.run(['lean', lean_file], capture_output=True, text=True, timeout=600)
  ok = p.returncode == 0 and 'error' not in p.stdout and not re.search(r'\b(sorry|axiom|admit)\b', txt)
  out = []
  for name in re.findall(r'^theorem (\w+)', txt, re.M):
    o = Obligation('C09/lean/Closure.lean::%s/lemma#1' % name, 'lemma', [], z3.BoolVal(True),
                   detail='Lean 4 + Mathlib theorem (closure invariant step); whole file: %s' % ('accepted' if ok else (p.stdout + p.stderr)[-400:]))
    o.owner = 'lean/Closure.lean'
    o.status = 'proved' if ok else 'unknown'
    o.backend = 'lean-4.33.0+mathlib'
    o.seconds = (time.time() - t0)
    o.prechecked = True
    out.append(o)
  return out


SURROUND = ['cfg.cc wrappers (CPython C-API glue) for is_reachable/ConnectTo/NewCFGNode',
            'typegraph.cc Program::NewCFGNode / CFGNode::ConnectNew (node ids dense and equal to the analyzer\'s; constructor): bounded native sweep only',
            'Variable::Prune, CanHaveCombination as users of reachability']
NATIVE_IN_QUICK = True
MUTANTS = [
    dict(name='or_to_assign', file=CC, old="row_i[j] |= row_dst[j];", new="row_i[j] = row_dst[j];"),
    dict(name='or_to_and', file=CC, old="row_i[j] |= row_dst[j];", new="row_i[j] &= row_dst[j];"),
    dict(name='src_dst_swapped_rows', file=CC, old="std::int64_t* row_dst = adj_[dst].data();", new="std::int64_t* row_dst = adj_[src].data();"),
    dict(name='div_32', file=CC, old="  int src_pos = src / 64;", new="  int src_pos = src / 32;"),
    dict(name='mask_31', file=CC, old="return 1l << (node_id & 63);", new="return 1l << (node_id & 31);"),
    dict(name='size_off_by_one', file=CC, old="size_ = (num_nodes_ + 63) / 64;", new="size_ = (num_nodes_ + 64) / 64;", expect=0),  # one spare word: harmless
    dict(name='size_too_small', file=CC, old="size_ = (num_nodes_ + 63) / 64;", new="size_ = (num_nodes_ + 62) / 64;"),
    dict(name='no_row_resize', file=CC, old="    adj_[i].resize(size_, 0);\n", new="    if (i == node) adj_[i].resize(size_, 0);\n"),
    dict(name='is_reachable_swapped', file=CC, old="return adj_[src][dst / 64] & _node_bit(dst) ? true : false;",
         new="return adj_[dst][src / 64] & _node_bit(src) ? true : false;"),
    dict(name='loop_skips_last_word', file=CC, old="for (int j = 0; j < size_; j++) {", new="for (int j = 0; j + 1 < size_; j++) {"),
    # typegraph.cc glue (second theory)
    dict(name='glue_connect_args_swapped', file=TG, old="this->backward_reachability_->add_connection(node->id(), this->id());",
         new="this->backward_reachability_->add_connection(this->id(), node->id());"),
    dict(name='glue_query_args_swapped', file=TG, old="return backward_reachability_->is_reachable(dst->id(), src->id());",
         new="return backward_reachability_->is_reachable(src->id(), dst->id());"),
    dict(name='glue_skip_when_forward_reachable', file=TG, old="  program_->InvalidateSolver();\n  node->incoming_.push_back(this);",
         new="  program_->InvalidateSolver();\n  node->incoming_.push_back(this);\n  this->outgoing_.push_back(node);\n"
             "  if (backward_reachability_->is_reachable(this->id(), node->id())) return;\n  if (false)"),
    dict(name='glue_no_dup_check_harmless', file=TG, expect=2, old="    if (n == node) {\n      return;  // already connected\n    }", new="    if (n == node) {\n    }"),
    dict(name='glue_connect_wrong_node', file=TG, old="this->backward_reachability_->add_connection(node->id(), this->id());",
         new="this->backward_reachability_->add_connection(node->id(), node->id());"),
    dict(name='new_bit_or_assign_harmless', file=CC, expect=0,
         old="adj_[node][node / 64] = _node_bit(node);", new="adj_[node][node / 64] |= _node_bit(node);"),
]
