"""C09 — CFG reachability answers equal true graph reachability (reachable.cc, typegraph.cc)."""
import collections

import z3

from engine import cxxfront
from engine import sorts as S
from engine import source
from engine.core import Contract, Loop, Theory
from engine.values import V, Builtin

CC = 'pytype/typegraph/reachable.cc'
NS = 'devtools_python_typegraph::'
FUNCS = ['_node_bit', 'ReachabilityAnalyzer::add_node', 'ReachabilityAnalyzer::add_connection',
         'ReachabilityAnalyzer::is_reachable']


def build(repo):
  T = Theory('C09')
  texts = []
  for q in FUNCS:
    src, _ = cxxfront.lower_function(repo, CC, NS + q)
    texts.append(src)
  lowered = '\n'.join(texts)
  source.register_lowered(repo, CC, lowered)
  T.lowered = lowered
  Row = S.Seq(S.BV64)
  Mat = S.Seq(Row)
  T.bind_obj(CC, 'ReachabilityAnalyzer', collections.OrderedDict(adj_=Mat, num_nodes_=S.INT, size_=S.INT))
  T.axioms += S.pow2_facts()
  k, j = z3.Ints('k j')
  zero = z3.BitVecVal(0, 64)
  T.lemmas += [
      ('pow2_nonzero', z3.ForAll([k], z3.Implies(z3.And(0 <= k, k < 64), S.POW2(k) != zero), patterns=[S.POW2(k)])),
      ('pow2_disjoint', z3.ForAll([j, k], z3.Implies(z3.And(0 <= j, j < 64, 0 <= k, k < 64, j != k),
                                                     (S.POW2(j) & S.POW2(k)) == zero),
                                  patterns=[z3.MultiPattern(S.POW2(j), S.POW2(k))])),
  ]

  def bit(mat, i, jj):
    return (Row.at(Mat.at(mat, i), jj / 64) & S.POW2(jj % 64)) != zero

  def RI(o):
    mat, n, sz = o.fields['adj_'].t, o.fields['num_nodes_'].t, o.fields['size_'].t
    i, b = z3.Ints('ri rb')
    return z3.And(
        n >= 0, Mat.len(mat) == n,
        z3.Implies(n >= 1, z3.And(
            64 * sz >= n, sz >= 1, sz <= n,   # enough words for n columns (not necessarily the minimum)
            z3.ForAll([b], z3.Implies(z3.And(0 <= b, b < n), b / 64 < sz)),   # consequence, stated to help the solver
            z3.ForAll([i], z3.Implies(z3.And(0 <= i, i < n), Row.len(Mat.at(mat, i)) == sz)),
            # padding bits are clear (a later add_node must not inherit a stale 1 in its new column)
            z3.ForAll([i, b], z3.Implies(z3.And(0 <= i, i < n, n <= b, b < 64 * sz), z3.Not(bit(mat, i, b)))))))
  B = lambda nm, f: Builtin(nm, f, needs_ex=True)
  T.symbols['RI'] = B('RI', lambda ex, a, k, n: V(S.BOOL, RI(a[0])))
  T.symbols['R'] = B('R', lambda ex, a, k, n: V(S.BOOL, bit(a[0].fields['adj_'].t if hasattr(a[0], 'fields') else a[0].t,
                                                        ex.as_int(a[1]), ex.as_int(a[2]))))
  T.symbols['pow2'] = B('pow2', lambda ex, a, k, n: V(S.BV64, S.POW2(ex.as_int(a[0]))))
  T.symbols['word0'] = V(S.BV64, zero)
  T.assumptions += [
      'A-SHIFT: `1l << k` is the word with only bit k set for 0 <= k <= 63 (two\'s complement; formally UB for k = 63 before C++20)',
      'A-STL: std::vector::resize(n, v) keeps the first min(old, n) elements and fills the rest with v; operator[] in bounds (an obligation here) returns that element',
      'A-MEM: no use-after-free / aliasing between distinct vectors; `T* p = row.data()` is the row itself',
      'int is 32-bit, size_t and int64_t are 64-bit (LP64); mathematical integers with in-range obligations at every int/size_t arithmetic result',
      'ghost: the reflexive-transitive closure statement is discharged in Lean from the z3-proved one-step postconditions (lean/Closure.lean)',
  ]
  INTMAX = 2 ** 31 - 1
  T.add(Contract(CC, '_node_bit', collections.OrderedDict(node_id=S.INT),
                 requires=['node_id >= 0'], ensures=['same(result, pow2(node_id % 64))'], result=S.BV64))
  me = ('obj', 'ReachabilityAnalyzer')
  T.add(Contract(
      CC, 'add_node', collections.OrderedDict(self=me),
      requires=['RI(self)', 'self.num_nodes_ < %d' % INTMAX],
      ensures=[
          'result == old(self.num_nodes_)', 'self.num_nodes_ == old(self.num_nodes_) + 1', 'RI(self)',
          'all(all(R(self, i, j) == R(old(self), i, j) for j in range(old(self.num_nodes_))) for i in range(old(self.num_nodes_)))',
          'R(self, result, result)',
          'all(not R(self, i, result) and not R(self, result, i) for i in range(result))',
      ],
      loops={0: Loop([
          'len(self.adj_) == self.num_nodes_',
          'self.num_nodes_ == head0_n', 'self.size_ == head0_size',
          'all(len(self.adj_[k]) == self.size_ for k in range(i))',
          'all(all(same(self.adj_[k][w], entry(0, self.adj_)[k][w]) for w in range(len(entry(0, self.adj_)[k]))) for k in range(i))',
          'all(all(same(self.adj_[k][w], word0) for w in range(len(entry(0, self.adj_)[k]), self.size_)) for k in range(i))',
          'all(same(self.adj_[k], entry(0, self.adj_)[k]) for k in range(i, self.num_nodes_))',
      ], index='i', ghost_init=['head0_n = self.num_nodes_', 'head0_size = self.size_'])},
      asserts={'self.adj_[to_size(node)][': [
          'all(all(same(self.adj_[k][w], old(self.adj_)[k][w]) for w in range(len(old(self.adj_)[k]))) for k in range(node))',
          'all(all(same(self.adj_[k][w], word0) for w in range(len(old(self.adj_)[k]), self.size_)) for k in range(node))',
          'all(implies(w != node // 64, same(self.adj_[node][w], word0)) for w in range(self.size_))',
          'same(self.adj_[node][node // 64], pow2(node % 64))',
          'all(all(not R(self, k, b) for b in range(self.num_nodes_, 64 * self.size_)) for k in range(node))',
          'all(not R(self, node, b) for b in range(self.num_nodes_, 64 * self.size_))',
      ]},
      result=S.INT, ghost={'head0_n': S.INT, 'head0_size': S.INT}))
  inrange = ['RI(self)', '0 <= src and src < self.num_nodes_', '0 <= dst and dst < self.num_nodes_',
             'self.num_nodes_ <= %d' % INTMAX]
  upd = ('ite(bvnz(bvand(old(self.adj_)[k][src // 64], pow2(src % 64))),'
         ' bvor(old(self.adj_)[k][w], old(self.adj_)[dst][w]), old(self.adj_)[k][w])')
  frame = ['self.num_nodes_ == old(self.num_nodes_)', 'self.size_ == old(self.size_)',
           'len(self.adj_) == len(old(self.adj_))',
           'all(len(self.adj_[k]) == len(old(self.adj_)[k]) for k in range(self.num_nodes_))']
  T.add(Contract(
      CC, 'add_connection', collections.OrderedDict(self=me, src=S.INT, dst=S.INT),
      requires=inrange,
      ensures=frame + [
          'all(all(same(self.adj_[k][w], %s) for w in range(self.size_)) for k in range(self.num_nodes_))' % upd,
          # the view-level statement: R' = R  union  R(.,src) x R(dst,.)
          'all(all(R(self, i, j) == (R(old(self), i, j) or (R(old(self), i, src) and R(old(self), dst, j)))'
          ' for j in range(self.num_nodes_)) for i in range(self.num_nodes_))',
          'RI(self)',
      ],
      loops={
          0: Loop(frame + [
              'all(all(same(self.adj_[k][w], %s) for w in range(self.size_)) for k in range(i))' % upd,
              'all(all(same(self.adj_[k][w], old(self.adj_)[k][w]) for w in range(self.size_)) for k in range(i, self.num_nodes_))',
          ], index='i'),
          1: Loop(frame + [
              'all(all(same(self.adj_[k][w], %s) for w in range(self.size_)) for k in range(i))' % upd,
              'all(all(same(self.adj_[k][w], old(self.adj_)[k][w]) for w in range(self.size_)) for k in range(i + 1, self.num_nodes_))',
              'all(same(self.adj_[i][w], bvor(old(self.adj_)[i][w], old(self.adj_)[dst][w])) for w in range(j))',
              'all(same(self.adj_[i][w], old(self.adj_)[i][w]) for w in range(j, self.size_))',
          ], index='j'),
      }))
  T.add(Contract(
      CC, 'is_reachable', collections.OrderedDict(self=me, src=S.INT, dst=S.INT),
      requires=inrange,
      ensures=['result == R(self, src, dst)',
               'same(self.adj_, old(self.adj_)) and self.num_nodes_ == old(self.num_nodes_) and self.size_ == old(self.size_)'],
      result=S.BOOL))
  return T


def extra_obligations(repo):
  """The closure lemmas: checked by Lean on every run (no sorry/axiom allowed)."""
  import os, re, subprocess, time
  from engine.core import Obligation
  lean_file = os.path.join(os.path.dirname(os.path.dirname(os.path.abspath(__file__))), 'lean', 'Closure.lean')
  txt = open(lean_file).read()
  t0 = time.time()
  p = subprocess.run(['lean', lean_file], capture_output=True, text=True, timeout=600)
  ok = p.returncode == 0 and 'error' not in p.stdout and not re.search(r'\b(sorry|axiom|admit)\b', txt)
  out = []
  for name in re.findall(r'^theorem (\w+)', txt, re.M):
    o = Obligation('C09/lean/Closure.lean::%s/lemma#1' % name, 'lemma', [], z3.BoolVal(True),
                   detail='Lean 4 + Mathlib theorem (closure invariant step); whole file: %s' % ('accepted' if ok else (p.stdout + p.stderr)[-400:]))
    o.owner = 'lean/Closure.lean'
    o.status = 'proved' if ok else 'unknown'
    o.backend = 'lean-4.33.0+mathlib'
    o.seconds = (time.time() - t0)
    o.prechecked = True
    out.append(o)
  return out


SURROUND = ['cfg.cc wrappers (CPython C-API glue) for is_reachable/ConnectTo/NewCFGNode',
            'typegraph.cc Program::NewCFGNode / CFGNode::ConnectTo / Program::is_reachable (next step)',
            'Variable::Prune, CanHaveCombination as users of reachability']
NATIVE_IN_QUICK = True
MUTANTS = [
    dict(name='or_to_assign', file=CC, old="row_i[j] |= row_dst[j];", new="row_i[j] = row_dst[j];"),
    dict(name='or_to_and', file=CC, old="row_i[j] |= row_dst[j];", new="row_i[j] &= row_dst[j];"),
    dict(name='src_dst_swapped_rows', file=CC, old="std::int64_t* row_dst = adj_[dst].data();", new="std::int64_t* row_dst = adj_[src].data();"),
    dict(name='div_32', file=CC, old="  int src_pos = src / 64;", new="  int src_pos = src / 32;"),
    dict(name='mask_31', file=CC, old="return 1l << (node_id & 63);", new="return 1l << (node_id & 31);"),
    dict(name='size_off_by_one', file=CC, old="size_ = (num_nodes_ + 63) / 64;", new="size_ = (num_nodes_ + 64) / 64;", expect=0),  # one spare word: harmless
    dict(name='size_too_small', file=CC, old="size_ = (num_nodes_ + 63) / 64;", new="size_ = (num_nodes_ + 62) / 64;"),
    dict(name='no_row_resize', file=CC, old="    adj_[i].resize(size_, 0);\n", new="    if (i == node) adj_[i].resize(size_, 0);\n"),
    dict(name='is_reachable_swapped', file=CC, old="return adj_[src][dst / 64] & _node_bit(dst) ? true : false;",
         new="return adj_[dst][src / 64] & _node_bit(src) ? true : false;"),
    dict(name='loop_skips_last_word', file=CC, old="for (int j = 0; j < size_; j++) {", new="for (int j = 0; j + 1 < size_; j++) {"),
    dict(name='new_bit_or_assign_harmless', file=CC, expect=0,
         old="adj_[node][node / 64] = _node_bit(node);", new="adj_[node][node / 64] |= _node_bit(node);"),
]
