"""C11 — stub optimisation only ever widens types: the union kernel pytd_utils.JoinTypes.

Every union the optimiser builds goes through JoinTypes (SimplifyUnions, CombineReturnsAndExceptions,
CombineContainers, AbsorbMutableParameters, CollapseLongUnions' inputs).  DESIGN.md section 3, C11.
"""
import collections

import z3

from engine import sorts as S
from engine.core import Contract, Loop, Theory
from engine.values import V, Builtin, PyTuple, PyStr

UTILS_PY = 'pytype/pytd/pytd_utils.py'
PYTD_PY = 'pytype/pytd/pytd.py'
OPT_PY = 'pytype/pytd/optimize.py'


def build():
  return [build_join(), build_combine()]


def build_join():
  T = Theory('C11')
  T.append_frame_trigger = True
  Ty = S.Uninterp('Type')
  SeqT, SetT = S.Seq(Ty), S.SetOf(Ty)
  T.sorts['Type'] = Ty
  Z = Ty.z3()
  ZS = SeqT.z3()
  is_union = z3.Function('is_UnionType', Z, z3.BoolSort())
  is_nothing = z3.Function('is_NothingType', Z, z3.BoolSort())
  is_anything = z3.Function('is_AnythingType', Z, z3.BoolSort())
  tl = z3.Function('type_list', Z, ZS)
  den = z3.Function('den', Z, z3.BoolSort())     # "the (Skolem) value v is admitted by the type"
  named = z3.Function('NamedType', S.STR.z3(), Z)
  mkunion = z3.Function('UnionType', ZS, Z)
  flat = z3.Function('flat', ZS, z3.BoolSort())
  distinct = z3.Function('distinct_seq', ZS, z3.BoolSort())
  ANY = z3.Const('AnythingType!', Z)
  NOTHING = z3.Const('NothingType!', Z)
  t, u = z3.Consts('t u', Z)
  a, b = z3.Consts('a b', ZS)
  k, j = z3.Ints('k j')
  st = z3.Const('st', S.STR.z3())
  st2 = z3.Const('st2', S.STR.z3())
  ln, at = SeqT.len, SeqT.at
  inseq = lambda s, x: z3.Exists([k], z3.And(0 <= k, k < ln(s), at(s, k) == x))
  T.axioms += [
      # the three special node kinds exclude one another; Anything/Nothing have no fields, so one value each
      z3.ForAll([t], z3.And(z3.Not(z3.And(is_union(t), is_nothing(t))), z3.Not(z3.And(is_union(t), is_anything(t))),
                            z3.Not(z3.And(is_nothing(t), is_anything(t)))), patterns=[is_union(t)]),
      z3.ForAll([t], is_anything(t) == (t == ANY), patterns=[is_anything(t)]),
      z3.ForAll([t], is_nothing(t) == (t == NOTHING), patterns=[is_nothing(t)]),
      # meaning: Nothing admits no value, Anything every value, a union what one of its members admits
      z3.Not(den(NOTHING)), den(ANY),
      z3.ForAll([t], ln(tl(t)) >= 0, patterns=[tl(t)]),
      z3.ForAll([t], z3.Implies(is_union(t), den(t) == z3.Exists([k], z3.And(0 <= k, k < ln(tl(t)), den(at(tl(t), k))))),
                patterns=[den(t)]),
      z3.ForAll([st], z3.And(z3.Not(is_union(named(st))), z3.Not(is_nothing(named(st))), z3.Not(is_anything(named(st)))),
                patterns=[named(st)]),
      z3.ForAll([st, st2], z3.Implies(named(st) == named(st2), st == st2), patterns=[z3.MultiPattern(named(st), named(st2))]),
      z3.ForAll([a], flat(a) == z3.ForAll([k], z3.Implies(z3.And(0 <= k, k < ln(a)), z3.And(
          z3.Not(is_union(at(a, k))), z3.Not(is_nothing(at(a, k)))))), patterns=[flat(a)]),
      z3.ForAll([a], distinct(a) == z3.ForAll([k, j], z3.Implies(z3.And(0 <= k, k < j, j < ln(a)), at(a, k) != at(a, j))),
                patterns=[distinct(a)]),
      # UnionType(type_list): __post_init__ flattens nested unions and removes duplicates keeping the first occurrence
      # (pytd._FlattenTypes); on a flat duplicate-free tuple it keeps the tuple as it is
      z3.ForAll([a], z3.Implies(ln(a) > 0, z3.And(
          is_union(mkunion(a)),
          ln(tl(mkunion(a))) > 0,
          distinct(tl(mkunion(a))),
          z3.ForAll([t], inseq(tl(mkunion(a)), t) == z3.Exists([j], z3.And(0 <= j, j < ln(a), z3.If(
              is_union(at(a, j)), inseq(tl(at(a, j)), t), at(a, j) == t)))),
          z3.Implies(z3.And(distinct(a), z3.ForAll([k], z3.Implies(z3.And(0 <= k, k < ln(a)), z3.Not(is_union(at(a, k)))))),
                     z3.And(ln(tl(mkunion(a))) == ln(a),
                            z3.ForAll([k], z3.Implies(z3.And(0 <= k, k < ln(a)), at(tl(mkunion(a)), k) == at(a, k))))))),
                patterns=[mkunion(a)]),
      # _SetOfTypes.__eq__: unions are equal iff their members are (as sets) -- proved for the real code under C12
      z3.ForAll([t, u], z3.Implies(z3.And(is_union(t), is_union(u),
                                          z3.ForAll([k], z3.Implies(z3.And(0 <= k, k < ln(tl(t))), inseq(tl(u), at(tl(t), k)))),
                                          z3.ForAll([k], z3.Implies(z3.And(0 <= k, k < ln(tl(u))), inseq(tl(t), at(tl(u), k))))),
                                   t == u), patterns=[z3.MultiPattern(is_union(t), is_union(u))]),
  ]
  T.attr_models[(Ty.name, 'isinstance:UnionType')] = lambda ex, v: is_union(v.t)
  T.attr_models[(Ty.name, 'isinstance:NothingType')] = lambda ex, v: is_nothing(v.t)
  T.attr_models[(Ty.name, 'isinstance:AnythingType')] = lambda ex, v: is_anything(v.t)

  def type_list(ex, v):
    ex.oblige(is_union(v.t), 'safety', 'attribute type_list exists (the node is a union)')
    return V(SeqT, tl(v.t), origin=('immutable', 'UnionType', 'type_list'))
  T.attr_models[(Ty.name, 'type_list')] = type_list

  def mk_named(ex, args, kwargs, node):
    s = ex.coerce(args[0], S.STR)
    return V(Ty, named(s.t))

  def mk_union(ex, args, kwargs, node):
    arg = args[0] if args else kwargs['type_list']
    s = ex.coerce(arg, SeqT)
    ex.oblige(ln(s.t) > 0, 'safety', 'UnionType(type_list): `assert type_list` in _FlattenTypes (non-empty)')
    return V(Ty, mkunion(s.t))
  T.classes[(PYTD_PY, 'NamedType')] = ('opaque', mk_named)
  T.classes[(PYTD_PY, 'UnionType')] = ('opaque', mk_union)
  T.classes[(PYTD_PY, 'AnythingType')] = ('opaque', lambda ex, a_, k_, n_: V(Ty, ANY))
  T.classes[(PYTD_PY, 'NothingType')] = ('opaque', lambda ex, a_, k_, n_: V(Ty, NOTHING))
  B = lambda nm, f: Builtin(nm, f, needs_ex=True)
  cz = lambda ex, v: ex.coerce(v, Ty).t
  T.symbols['den'] = B('den', lambda ex, a_, k_, n_: V(S.BOOL, den(cz(ex, a_[0]))))
  T.symbols['is_union'] = B('is_union', lambda ex, a_, k_, n_: V(S.BOOL, is_union(cz(ex, a_[0]))))
  T.symbols['is_nothing'] = B('is_nothing', lambda ex, a_, k_, n_: V(S.BOOL, is_nothing(cz(ex, a_[0]))))
  T.symbols['is_anything'] = B('is_anything', lambda ex, a_, k_, n_: V(S.BOOL, is_anything(cz(ex, a_[0]))))
  T.symbols['members'] = B('members', lambda ex, a_, k_, n_: V(SeqT, tl(cz(ex, a_[0]))))
  T.symbols['flat'] = B('flat', lambda ex, a_, k_, n_: V(S.BOOL, flat(ex.coerce(a_[0], SeqT).t)))
  T.symbols['distinct'] = B('distinct', lambda ex, a_, k_, n_: V(S.BOOL, distinct(ex.coerce(a_[0], SeqT).t)))
  T.symbols['AnythingType'] = B('AnythingType', lambda ex, a_, k_, n_: V(Ty, ANY))
  T.symbols['NONETYPE'] = V(Ty, named(S.STR.literal('builtins.NoneType')))
  T.symbols['NONETYPE0'] = V(Ty, named(S.STR.literal('NoneType')))
  T.builtin_models = {
      'collections.deque': lambda ex, a_, k_, n_: V(SeqT, ex.coerce(a_[0], SeqT).t),   # a fresh queue holding the elements
      'reversed': lambda ex, a_, k_, n_: ('reversed', a_[0]),
  }

  def popleft(ex, recv, args, kwargs):
    raise NotImplementedError
  T.assumptions += [
      'type nodes are opaque values; Python == on them is z3 equality (A-EQ: == is an equivalence that all node functions respect; '
      'for unions: equal iff same member set, which is the C12 law proved for the real __eq__)',
      'A-DEN: den(t) is the truth value of "one arbitrary (Skolem) value is admitted by t": false for NothingType, true for AnythingType, '
      'the disjunction over the members for a union, unconstrained for every other node kind',
      'A-CTOR: UnionType(tuple) flattens nested unions and removes duplicates (pytd._FlattenTypes via __post_init__, not under contract here); '
      'AnythingType()/NothingType() have a single value each; NamedType(name) is injective in the name',
      'A-LIB: collections.deque(xs) is a list copy, popleft() removes index 0, extendleft(reversed(ys)) prepends ys in order',
  ]
  inv = [
      # what is still to come plus what was collected admits exactly what the input admits
      '(any(den(x) for x in new_types) or any(den(x) for x in queue)) == any(den(x) for x in types)',
      'flat(new_types)', 'distinct(new_types)',
      'all((x in seen) == (x in new_types) for x in every("Type"))',
      'implies(all(is_nothing(x) for x in types), len(new_types) == 0 and all(is_nothing(x) for x in queue))',
      # on an input that is already flat and duplicate-free nothing is reordered or dropped
      'implies(flat(types) and distinct(types), len(new_types) + len(queue) == len(types)'
      ' and all(new_types[k] == types[k] for k in range(len(new_types)))'
      ' and all(queue[k] == types[len(new_types) + k] for k in range(len(queue))))',
  ]
  T.add(Contract(
      UTILS_PY, 'JoinTypes', collections.OrderedDict(types=SeqT),
      ensures=[
          # never narrower, never wider: the result admits a value iff one of the inputs does
          'den(result) == any(den(x) for x in types)',
          # normal form: a union has at least two members, none of them a union or Nothing, no duplicates
          'implies(is_union(result), len(members(result)) >= 2 and flat(members(result)) and distinct(members(result)))',
          # idempotence, first half: a flat duplicate-free list of >= 2 members without Any is kept as it is
          'implies(flat(types) and distinct(types) and len(types) >= 2 and not any(is_anything(x) for x in types),'
          ' is_union(result) and len(members(result)) == len(types) and all(members(result)[k] == types[k] for k in range(len(types))))',
          'implies(flat(types) and distinct(types) and len(types) == 1, result == types[0])',
          # the only union that contains Any is Union[Any, None]; it is reproduced from its own members
          'implies(is_union(result) and any(is_anything(x) for x in members(result)),'
          ' len(members(result)) == 2 and members(result)[0] == AnythingType() and members(result)[1] == NONETYPE)',
          'aux:implies(flat(types) and distinct(types) and len(types) >= 2 and any(is_anything(x) for x in types) and NONETYPE in types,'
          ' is_union(result) and len(members(result)) == 2 and members(result)[0] == AnythingType() and members(result)[1] == NONETYPE)',
          'implies(all(is_nothing(x) for x in types), is_nothing(result))',
      ],
      loops={0: Loop(inv)},
      asserts={'queue.extendleft(reversed(t.type_list))': ['den(t) == any(den(x) for x in t.type_list)']},
      result=Ty,
      ghost={'queue': SeqT, 'new_types': SeqT, 'seen': SetT}))
  # idempotence as a lemma over the contract: joining the members of a result gives the same result again
  IDEM = '''
def lemma(types):
  r = JoinTypes(types)
  if isinstance(r, pytd.UnionType):
    r2 = JoinTypes(r.type_list)
  else:
    r2 = JoinTypes([r])
  return (r, r2)
'''
  c = Contract(UTILS_PY, 'lemma[JoinTypes idempotent]', collections.OrderedDict(types=SeqT),
               ensures=['result[0] == result[1]'], instance={})
  c.harness_src = IDEM
  T.add(c)
  return T


def build_combine():
  """Second theory: optimize.CombineReturnsAndExceptions (_ReturnsAndExceptions.Update, _GroupByArguments, VisitFunction):
  signatures that differ only in return type / exceptions are merged, the return types joined with JoinTypes (contract proved
  in the first theory), the exceptions collected."""
  T = build_join()
  for c in list(T.contracts.values()):
    if c.qualname != 'JoinTypes':
      del T.contracts[c.key]
    else:
      c.verify = False
      c.note = 'proved in the first theory'
  T.lemmas = []
  Ty = T.sorts['Type']
  SeqT = S.Seq(Ty)
  Sig = S.Uninterp('Signature')
  Fun = S.Uninterp('Function')
  SeqS = S.Seq(Sig)
  RE = S.Uninterp('ReturnsAndExceptionsRef')
  T.sorts.update(Signature=Sig, Function=Fun)
  T.sorts['OptType'] = S.Opt(Ty)
  ZS, ZT = Sig.z3(), Ty.z3()
  stripf = z3.Function('stripped', ZS, ZS)
  retf = z3.Function('return_type', ZS, ZT)
  excf = z3.Function('exceptions', ZS, SeqT.z3())
  mk = z3.Function('with_returns_and_exceptions', ZS, ZT, SeqT.z3(), ZS)
  sigs_of = z3.Function('signatures', Fun.z3(), SeqS.z3())
  mkfun = z3.Function('with_signatures', Fun.z3(), SeqS.z3(), Fun.z3())
  s_, r_ = z3.Const('s_', ZS), z3.Const('r_', ZT)
  e_ = z3.Const('e_', SeqT.z3())
  f_ = z3.Const('f_', Fun.z3())
  q_ = z3.Const('q_', SeqS.z3())
  OptT = S.Opt(Ty)
  T.axioms += [
      # sig.Replace(return_type=None, exceptions=None) forgets exactly these two fields; Replace(return_type=r, exceptions=e) sets them
      z3.ForAll([s_], stripf(stripf(s_)) == stripf(s_), patterns=[stripf(s_)]),
      z3.ForAll([s_, r_, e_], z3.And(stripf(mk(s_, r_, e_)) == stripf(s_), retf(mk(s_, r_, e_)) == r_,
                                      SeqT.eq(excf(mk(s_, r_, e_)), e_)), patterns=[mk(s_, r_, e_)]),
      z3.ForAll([f_, q_], SeqS.eq(sigs_of(mkfun(f_, q_)), q_), patterns=[mkfun(f_, q_)]),
      z3.ForAll([s_], SeqT.len(excf(s_)) >= 0, patterns=[excf(s_)]),
      z3.ForAll([f_], SeqS.len(sigs_of(f_)) >= 0, patterns=[sigs_of(f_)]),
  ]

  def sig_replace(ex, recv, a, k):
    if set(k) != {'return_type', 'exceptions'}:
      raise NotImplementedError('Signature.Replace(%s)' % sorted(k))
    from engine.values import NONE as _NONE
    if k['return_type'] is _NONE and k['exceptions'] is _NONE:
      return V(Sig, stripf(recv.t))
    return V(Sig, mk(recv.t, ex.coerce(k['return_type'], Ty).t, ex.coerce(k['exceptions'], SeqT).t))
  T.method_models[(Sig.name, 'Replace')] = sig_replace
  T.attr_models[(Sig.name, 'return_type')] = lambda ex, v: V(Ty, retf(v.t))   # a signature under optimisation has a return type (None only in the stripped key)
  T.attr_models[(Sig.name, 'exceptions')] = lambda ex, v: V(SeqT, excf(v.t), origin=('immutable', 'Signature', 'exceptions'))
  T.attr_models[(Fun.name, 'signatures')] = lambda ex, v: V(SeqS, sigs_of(v.t), origin=('immutable', 'Function', 'signatures'))
  T.method_models[(Fun.name, 'Replace')] = lambda ex, recv, a, k: V(Fun, mkfun(recv.t, ex.coerce(k['signatures'], SeqS).t))
  T.bind_heap(OPT_PY, '_ReturnsAndExceptions', RE, collections.OrderedDict(return_types=SeqT, exceptions=SeqT))
  T.bind_obj(OPT_PY, 'CombineReturnsAndExceptions', collections.OrderedDict())
  B = lambda nm, f: Builtin(nm, f, needs_ex=True)
  T.symbols['stripped'] = B('stripped', lambda ex, a_, k_, n_: V(Sig, stripf(ex.coerce(a_[0], Sig).t)))
  raises = z3.Function('raises', ZS, ZT, z3.BoolSort())
  t_ = z3.Const('t_', ZT)
  T.axioms.append(z3.ForAll([s_, t_], raises(s_, t_) == SeqT.contains(excf(s_), t_), patterns=[raises(s_, t_)]))
  T.symbols['raises'] = B('raises', lambda ex, a_, k_, n_: V(S.BOOL, raises(ex.coerce(a_[0], Sig).t, ex.coerce(a_[1], Ty).t)))
  T.assumptions += [
      'second theory (CombineReturnsAndExceptions): signatures and functions are opaque values; sig.Replace(return_type=None, exceptions=None) is the '
      'signature without these two fields (idempotent), Replace(return_type=r, exceptions=e) sets exactly them; f.Replace(signatures=q) sets the signatures (A-CTOR, msgspec)',
      '_ReturnsAndExceptions objects live in a heap (they are reached through the groups dict and mutated through aliases)',
      'list.extend(generator that tests membership in the list being extended) is specified by membership only (which duplicates inside one signature survive is not stated)',
  ]
  me = RE
  T.add(Contract(
      OPT_PY, '_ReturnsAndExceptions.Update', collections.OrderedDict(self=me, signature=Sig),
      ensures=[
          'all((t in self.return_types) == (t in old(self.return_types) or t == signature.return_type) for t in every("Type"))',
          'all((t in self.exceptions) == (t in old(self.exceptions) or raises(signature, t)) for t in every("Type"))',
      ],
      heap_mutates=(('self', 'return_types'), ('self', 'exceptions'))))
  in_group = lambda res, k: 'any(stripped(signatures[j]) == %s and %s for j in range(%s))' % (k, '%s', '%s')
  T.add(Contract(
      OPT_PY, 'CombineReturnsAndExceptions._GroupByArguments', collections.OrderedDict(self=('obj', 'CombineReturnsAndExceptions'), signatures=SeqS),
      ensures=[
          # the keys are the stripped input signatures
          'all((k in result) == any(stripped(signatures[j]) == k for j in range(len(signatures))) for k in every("Signature"))',
          # each group holds exactly the return types of the signatures with that parameter list (the exceptions are collected by
          # Update -- proved above -- but which group ends up with which exceptions is not under contract: C11 is about types)
          'all(implies(k in result, all((t in result[k].return_types) == any(stripped(signatures[j]) == k and signatures[j].return_type == t'
          ' for j in range(len(signatures))) for t in every("Type"))) for k in every("Signature"))',
      ],
      loops={0: Loop([
          'all((k in groups) == any(stripped(signatures[j]) == k for j in range(i)) for k in every("Signature"))',
          'all(implies(k in groups, all((t in groups[k].return_types) == any(stripped(signatures[j]) == k and signatures[j].return_type == t'
          ' for j in range(i)) for t in every("Type"))) for k in every("Signature"))',
          # distinct keys hold distinct, already created objects
          'all(implies(k in groups, allocated(groups[k])) for k in every("Signature"))',
          'all(all(implies(k1 in groups and k2 in groups and k1 != k2, groups[k1] != groups[k2]) for k2 in every("Signature")) for k1 in every("Signature"))',
      ], index='i', havoc=['$H._ReturnsAndExceptions.return_types', '$H._ReturnsAndExceptions.exceptions', '$H._ReturnsAndExceptions.$alloc'])},
      result=S.DictOf(Sig, RE), ghost={'groups': S.DictOf(Sig, RE), 'ret': S.Opt(RE), 'stripped_signature': Sig}))
  T.add(Contract(
      OPT_PY, 'CombineReturnsAndExceptions.VisitFunction', collections.OrderedDict(self=('obj', 'CombineReturnsAndExceptions'), f=Fun),
      ensures=[
          # only widens: every signature of f has a counterpart with the same parameters whose return type admits what its return type admits
          'all(any(stripped(result.signatures[m]) == stripped(f.signatures[j]) and implies(den(f.signatures[j].return_type), den(result.signatures[m].return_type))'
          ' for m in range(len(result.signatures))) for j in range(len(f.signatures)))',
          # never wider than the signatures with the same parameters taken together
          'all(implies(den(result.signatures[m].return_type), any(stripped(f.signatures[j]) == stripped(result.signatures[m]) and den(f.signatures[j].return_type)'
          ' for j in range(len(f.signatures)))) for m in range(len(result.signatures)))',
      ],
      loops={0: Loop([
          'all(implies(k in groups and any(GK_[q][0] == k for q in range(i)), any(stripped(new_signatures[m]) == k and '
          'all(implies(t in groups[k].return_types and den(t), den(new_signatures[m].return_type)) for t in every("Type")) for m in range(len(new_signatures))))'
          ' for k in every("Signature"))',
          'all(any(GK_[q][0] == stripped(new_signatures[m]) for q in range(i)) and implies(den(new_signatures[m].return_type), '
          'any(t in groups[stripped(new_signatures[m])].return_types and den(t) for t in every("Type"))) for m in range(len(new_signatures)))',
      ], index='i', seq='GK_')},
      result=Fun, ghost={'groups': S.DictOf(Sig, RE), 'new_signatures': SeqS}))
  return T


SURROUND = ['optimize.CombineContainers (tuple/callable arity merging, container merging): bounded native sweep only',
            'optimize.SimplifyUnionsWithSuperclasses / FindCommonSuperClasses / CollapseLongUnions / SuperClassHierarchy: bounded native sweep only',
            'optimize.RemoveDuplicates, AbsorbMutableParameters, MergeTypeParameters: bounded native sweep only; which exceptions a merged signature carries (CombineReturnsAndExceptions) is not under contract',
            'the visitor framework (visitors.py / pytd_visitors.py), Optimize\'s pass pipeline and its idempotence as a whole',
            'pytd._FlattenTypes / _SetOfTypes.__post_init__ (assumed constructor semantics A-CTOR)']
def extra_obligations(repo):
  """Frame: the optimiser passes are functions of their input -- no module- or class-level mutable container in the
  optimiser modules is written by a function, and no function there is memoised process-wide.  (A memo keyed by class NAME
  survives from one stub to the next; with it a pass can narrow a type depending on what was optimised before.)"""
  import os
  import z3
  from contracts import c04_frames
  from engine.core import Obligation
  out = []
  nfiles = 0
  for rel in ('pytype/pytd/optimize.py', 'pytype/pytd/pytd_utils.py', 'pytype/pytd/visitors.py', 'pytype/pytd/pytd_visitors.py'):
    path = os.path.join(repo, rel)
    if not os.path.exists(path):
      continue
    nfiles += 1
    text = open(path, encoding='utf-8').read()
    _, memos = c04_frames.scan_file(rel, text)
    for m in memos + c04_frames.scan_module_state(rel, text):
      o = Obligation('C11/%s::%s/frame#no-state-across-calls' % (rel, m['expr'] if m['kind'] == 'module-state' else m['func']), 'frame', [],
                     z3.BoolVal(False), line=m['line'],
                     detail='%s `%s` keeps state from one Optimize() call to the next' % (m['kind'], m['expr']))
      o.owner = rel
      o.prechecked = True
      o.status, o.backend, o.model = 'sat', 'frame-scan', 'process-wide state %s in %s (line %d)' % (m['expr'], rel, m['line'])
      o.undecided_if_no_witness = True
      out.append(o)
  o = Obligation('C11/pytype/pytd/frame#no-state-across-calls', 'frame', [], z3.BoolVal(nfiles == 4),
                 detail='the four optimiser modules were scanned for module/class-level mutable state and process-wide memos (%d found)' % nfiles)
  o.owner = 'pytype/pytd'
  o.prechecked = True
  o.status, o.backend, o.model = ('proved' if nfiles == 4 else 'unknown'), 'frame-scan', None
  o.undecided_if_no_witness = True
  out.append(o)
  return out


NATIVE_IN_QUICK = True
MUTANTS = [
    dict(name='cre_join_first_only', file=OPT_PY, old="      ret = pytd_utils.JoinTypes(ret_exc.return_types)\n", new="      ret = pytd_utils.JoinTypes(ret_exc.return_types[:1])\n"),
    dict(name='cre_update_inverted', file=OPT_PY, old="    if signature.return_type not in self.return_types:\n", new="    if signature.return_type in self.return_types:\n"),
    dict(name='cre_group_reused_object', file=OPT_PY, old="      if not ret:\n        ret = _ReturnsAndExceptions()\n        groups[stripped_signature] = ret\n", new="      if not ret:\n        ret = shared\n        groups[stripped_signature] = ret\n"),

    dict(name='join_keeps_nothing', file=UTILS_PY, old="    elif isinstance(t, pytd.NothingType):\n      pass\n", new=""),
    dict(name='join_keeps_duplicates', file=UTILS_PY, old="    elif t not in seen:\n", new="    else:\n"),
    dict(name='join_narrows_to_first', file=UTILS_PY, old="  elif new_types:\n    return pytd.UnionType(tuple(new_types))", new="  elif new_types:\n    return new_types[0]"),
    dict(name='join_drops_nested_union', file=UTILS_PY, old="      queue.extendleft(reversed(t.type_list))\n", new="      pass\n"),
    dict(name='join_any_swallows_none_wider', file=UTILS_PY, expect=2, old="      return pytd.UnionType((pytd.AnythingType(), nonetype))\n", new="      return pytd.AnythingType()\n"),
    dict(name='join_empty_is_any', file=UTILS_PY, old="  else:\n    return pytd.NothingType()\n", new="  else:\n    return pytd.AnythingType()\n"),
]
