"""C04 — (last sentence) reported errors are unique and sorted by position: ErrorLog.unique_sorted_errors.

The body of C04 (byte-identical output under any hash seed / process history / loader reuse) is a
whole-pipeline non-interference property; no function-level contract here expresses it.  It is
sampled by the bounded native sweep only (native/c04_native.py).  DESIGN.md section 3, C04.
"""
import ast
import collections

import z3

from engine import sorts as S
from engine import source
from engine.core import Contract, Loop, Theory, Obligation
from engine.values import V, Builtin, NONE, PyTuple

ERR_PY = 'pytype/errors/errors.py'
SORTED_SRC = "return sorted(self._errors, key=lambda x: (x.filename or '', x.line))"


def build():
  T = Theory('C04')
  T.append_frame_trigger = True
  Err = S.Uninterp('Error')
  URep = S.Uninterp('URep')          # the tuple returned by get_unique_representation()
  Tb = S.Opt(S.STR)
  SeqE, SeqU = S.Seq(Err), S.Seq(URep)
  Groups = S.DictOf(URep, SeqE)
  T.sorts.update(Error=Err, URep=URep)
  ZE, ZU = Err.z3(), URep.z3()
  urep = z3.Function('unique_representation', ZE, ZU)
  tb = z3.Function('traceback', ZE, Tb.z3())
  skey = z3.Function('sort_key', ZE, z3.IntSort())        # rank of (filename or '', line) in the total order of such pairs
  ukey = z3.Function('sort_key_of_rep', ZU, z3.IntSort())
  cmp_tb = z3.Function('compare_traceback_strings', Tb.z3(), Tb.z3(), S.Opt(S.INT).z3())
  e = z3.Const('e', ZE)
  T.axioms += [
      # A-POS: the unique representation contains the printed position, which determines (filename or '', line)
      z3.ForAll([e], skey(e) == ukey(urep(e)), patterns=[urep(e)]),
  ]
  T.method_models[(Err.name, 'get_unique_representation')] = lambda ex, recv, a, k: V(URep, urep(recv.t))
  T.attr_models[(Err.name, 'traceback')] = lambda ex, v: V(Tb, tb(v.t))
  OptI = S.Opt(S.INT)
  T.opaque[(ERR_PY, '_compare_traceback_strings')] = lambda ex, bound, node: V(
      OptI, cmp_tb(ex.coerce(bound['left'], Tb).t, ex.coerce(bound['right'], Tb).t))
  B = lambda nm, f: Builtin(nm, f, needs_ex=True)
  T.symbols['skey'] = B('skey', lambda ex, a, k, n: V(S.INT, skey(ex.coerce(a[0], Err).t)))
  T.symbols['ukey'] = B('ukey', lambda ex, a, k, n: V(S.INT, ukey(ex.coerce(a[0], URep).t)))
  T.symbols['urep'] = B('urep', lambda ex, a, k, n: V(URep, urep(ex.coerce(a[0], Err).t)))

  def b_sum(ex, a, k, n):
    """sum(d.values(), []): the lists stored in d concatenated in the dict's iteration order.
    A-LIB: a dict iterates in insertion order; `korder` is the ghost record of the insertion order
    (the loop invariant proves that it enumerates the key set without repetition)."""
    if not (isinstance(a[0], tuple) and a[0][0] == 'dict_values'):
      raise NotImplementedError('sum over %r' % (a[0],))
    d = a[0][1]
    ko = ex.env['korder']
    r = SeqE.fresh('concatenated')
    starts = z3.FreshConst(z3.ArraySort(z3.IntSort(), z3.IntSort()), 'starts')
    grp = z3.Function(z3.FreshConst(z3.IntSort(), 'grp').decl().name(), z3.IntSort(), z3.IntSort())
    g, p, q = z3.Ints('g p q')
    nk = SeqU.len(ko.t)
    glen = lambda gg: SeqE.len(Groups.get(d.t, SeqU.at(ko.t, gg)))
    ex.assume(z3.Select(starts, 0) == 0)
    ex.assume(z3.ForAll([g], z3.Implies(z3.And(0 <= g, g < nk), z3.Select(starts, g + 1) == z3.Select(starts, g) + glen(g)),
                        patterns=[z3.Select(starts, g)]))
    ex.assume(SeqE.len(r) == z3.Select(starts, nk))
    ex.assume(z3.ForAll([g, p], z3.Implies(z3.And(0 <= g, g < nk, 0 <= p, p < glen(g)),
                                          SeqE.at(r, z3.Select(starts, g) + p) == SeqE.at(Groups.get(d.t, SeqU.at(ko.t, g)), p))))
    # every position of the result lies in exactly one group; groups appear in order
    ex.assume(z3.ForAll([q], z3.Implies(z3.And(0 <= q, q < SeqE.len(r)), z3.And(
        0 <= grp(q), grp(q) < nk, z3.Select(starts, grp(q)) <= q, q < z3.Select(starts, grp(q) + 1),
        SeqE.at(r, q) == SeqE.at(Groups.get(d.t, SeqU.at(ko.t, grp(q))), q - z3.Select(starts, grp(q))))), patterns=[grp(q)]))
    ex.assume(z3.ForAll([p, q], z3.Implies(z3.And(0 <= p, p <= q, q < SeqE.len(r)), grp(p) <= grp(q)),
                        patterns=[z3.MultiPattern(grp(p), grp(q))]))
    ex.env['grp_witness'] = ('fn', grp)
    T.symbols['grp'] = B('grp', lambda ex_, a_, k_, n_: V(S.INT, grp(ex_.as_int(a_[0]))))
    return V(SeqE, r)
  T.builtin_models = {'sum': b_sum}
  T.bind_obj(ERR_PY, 'ErrorLog', collections.OrderedDict(_errors=SeqE))
  T.assumptions += [
      'errors are opaque objects (identity equality: Error defines no __eq__); get_unique_representation() and traceback are stable reads',
      'A-POS: get_unique_representation() contains the printed position, and equal positions imply equal (filename or "", line): '
      'sort_key(e) = sort_key_of_rep(unique_representation(e))',
      'A-LIB: sorted(xs, key=f) returns a permutation of xs in non-decreasing key order (contract of _sorted_errors, whose body is checked '
      'textually to be that call); tuple keys (str, int) are totally ordered -- modelled by an integer rank; a None line is outside the precondition',
      'A-LIB: dicts iterate in insertion order; sum(d.values(), []) concatenates the stored lists in that order (ghost record `korder`)',
      'errors.remove(previous_error) raising ValueError is an exceptional exit outside the contract (absence not proved: needs distinct log entries)',
      '_compare_traceback_strings is an arbitrary function here: which duplicates are dropped is NOT under contract (only that nothing foreign '
      'is added, groups stay consistent and the order stays sorted); uniqueness is sampled by the native sweep',
  ]
  T.add(Contract(
      ERR_PY, 'ErrorLog._sorted_errors', collections.OrderedDict(self=('obj', 'ErrorLog')),
      ensures=['len(result) == len(self._errors)',
               'all(any(result[k] == self._errors[j] for j in range(len(result))) for k in range(len(result)))',
               'all(any(result[k] == self._errors[j] for k in range(len(result))) for j in range(len(result)))',
               'all(skey(result[a]) <= skey(result[b]) for a in range(len(result)) for b in range(a, len(result)))'],
      result=SeqE, verify=False, note='library contract of sorted(); the one-line body is compared textually on every run'))
  grp_ok = ('all(all(urep(x) == k and any(S_[j] == x for j in range(%s)) for x in unique_errors[k]) for k in unique_errors)')
  inv0 = [
      # korder is the insertion order of the keys
      'all(all(implies(a != b, korder[a] != korder[b]) for b in range(len(korder))) for a in range(len(korder)))',
      'all((k in unique_errors) == any(korder[g] == k for g in range(len(korder))) for k in every("URep"))',
      # every stored error is an input, filed under its own representation
      grp_ok % 'i',
      # keys were inserted in non-decreasing position order, each by an error already seen
      'all(any(korder[g] == urep(S_[j]) for j in range(i)) for g in range(len(korder)))',
      'all(ukey(korder[a]) <= ukey(korder[b]) for a in range(len(korder)) for b in range(a, len(korder)))',
      'all(skey(S_[a]) <= skey(S_[b]) for a in range(len(S_)) for b in range(a, len(S_)))',
  ]
  T.add(Contract(
      ERR_PY, 'ErrorLog.unique_sorted_errors', collections.OrderedDict(self=('obj', 'ErrorLog')),
      ensures=[
          # sorted by position
          'all(skey(result[a]) <= skey(result[b]) for a in range(len(result)) for b in range(a, len(result)))',
          # nothing is invented: every reported error is one of the logged errors
          'all(any(result[a] == self._errors[j] for j in range(len(self._errors))) for a in range(len(result)))',
      ],
      loops={
          0: Loop(inv0, index='i', seq='S_',
                  ghost_init=['korder = []'],
                  ghost_end=['korder = append(korder, error_without_traceback) if error_without_traceback not in head(0, unique_errors) else korder']),
          1: Loop(['all(urep(x) == error_without_traceback and any(S_[j] == x for j in range(i + 1)) for x in errors)',
                   'error_without_traceback in unique_errors',
                   'all(implies(k != error_without_traceback, k in unique_errors and same(unique_errors[k], entry(1, unique_errors)[k])) for k in entry(1, unique_errors))',
                   'all(implies(k in unique_errors, k in entry(1, unique_errors)) for k in every("URep"))',
                   'same(unique_errors[error_without_traceback], errors)',
                   ], index='p', havoc=['unique_errors']),
      },
      result=SeqE, may_raise=('ValueError',),
      ghost={'unique_errors': Groups, 'korder': SeqU, 'errors': SeqE, 'error_without_traceback': URep}))
  return T


def _extra_obligations_base(repo):
  """Exact-text contract of the one-line _sorted_errors (its library semantics are assumed)."""
  m = source.load(repo, ERR_PY)
  fn = m.func('ErrorLog._sorted_errors')
  body = [st for st in fn.body if not (isinstance(st, ast.Expr) and isinstance(st.value, ast.Constant))]
  got = ast.unparse(body[0]) if len(body) == 1 else '<%d statements>' % len(body)
  o = Obligation('C04/%s::ErrorLog._sorted_errors/frame#1' % ERR_PY, 'frame', [],
                 z3.BoolVal(got == SORTED_SRC), line=fn.lineno,
                 detail='body of _sorted_errors is `%s` (found: `%s`)' % (SORTED_SRC, got))
  o.owner = 'ErrorLog._sorted_errors'
  from contracts import c04_frames
  frames, used = c04_frames.obligations(repo)
  global FRAME_ASSUMPTIONS
  FRAME_ASSUMPTIONS = ['frame-scan review (%s::%s, %s over `%s`): %s' % (r['file'], r['func'], r['kind'], r['expr'], r['why']) for r in used]
  return [o] + frames


FRAME_ASSUMPTIONS = []


SURROUND = ['the whole analysis pipeline as a function of (source, options): vm.py, output.py, printer, optimizer, pickling, loader caches '
            '-- determinism under hash seeds / in-process history / loader reuse is NOT decided by any contract (bounded native sweep only)',
            'errors._compare_traceback_strings, Error.get_unique_representation / _position (string formatting)',
            'ErrorLog._add / Director.filter_error, every call site that creates errors (e.g. overriding_checks.py)']
NATIVE_IN_QUICK = True
ASSUMPTIONS = [
    'frame scan (contracts/c04_frames.py): order leaks are recognised syntactically only -- a set that reaches an order-sensitive consumer '
    'through an attribute, a parameter, a return value or a helper call is not seen; process-wide memoisation is recognised by decorator name '
    '(functools.lru_cache / functools.cache) only',
]
MUTANTS = [
    dict(name='sort_by_line_only', file=ERR_PY, old='key=lambda x: (x.filename or "", x.line)', new='key=lambda x: x.line'),
    dict(name='no_sort', file=ERR_PY, old='    for error in self._sorted_errors():\n      error_without_traceback', new='    for error in self._errors:\n      error_without_traceback'),
    dict(name='group_by_message_only', file=ERR_PY, old='      error_without_traceback = error.get_unique_representation()\n', new='      error_without_traceback = error.get_unique_representation()[1:]\n', expect=3),
    dict(name='append_previous', file=ERR_PY, old='        if len(errors) < MAX_TRACEBACKS:\n          errors.append(error)\n', new='        if len(errors) < MAX_TRACEBACKS:\n          errors.append(error)\n          errors.append(self._errors[0])\n'),
    dict(name='reversed_output', file=ERR_PY, old='    return sum(unique_errors.values(), [])\n', new='    return sum(reversed(list(unique_errors.values())), [])\n'),
]


def _cxx_pointer_order(repo):
  """C04 anchor `typegraph uses id-ordered std::set, never pointer order`: every ORDERED standard container of the typegraph
  whose key is a pointer (std::set<T*>, std::map<T*, ...>) names the id comparator pointer_less -- otherwise its iteration order
  is the order of heap addresses, which differs from run to run and with what was analysed before."""
  import os
  import re
  out = []
  n = 0
  for rel in ('pytype/typegraph/typegraph.h', 'pytype/typegraph/typegraph.cc', 'pytype/typegraph/solver.h', 'pytype/typegraph/solver.cc',
              'pytype/typegraph/reachable.h', 'pytype/typegraph/reachable.cc', 'pytype/typegraph/cfg.cc'):
    path = os.path.join(repo, rel)
    if not os.path.exists(path):
      continue
    text = open(path, encoding='utf-8').read()
    text_nc = re.sub(r'//[^\n]*', '', text)
    for m in re.finditer(r'std::(set|map|multiset|multimap)\s*<', text_nc):
      # the template argument list (balanced angle brackets)
      i, depth = m.end(), 1
      while i < len(text_nc) and depth:
        depth += {'<': 1, '>': -1}.get(text_nc[i], 0)
        i += 1
      args = text_nc[m.end():i - 1]
      first = re.split(r',(?![^<]*>)', args)[0].strip()
      if not first.endswith('*'):
        continue
      n += 1
      ok = 'pointer_less' in args
      line = text_nc.count('\n', 0, m.start()) + 1
      o = Obligation('C04/%s/frame#id-ordered-container@%s' % (rel, re.sub(r'\W+', '_', first)), 'frame', [], z3.BoolVal(ok), line=line,
                     detail='std::%s<%s> is ordered by object id (pointer_less), not by heap address' % (m.group(1), ' '.join(args.split())[:80]))
      o.owner = rel
      o.prechecked = True
      o.status, o.backend = ('proved' if ok else 'sat'), 'frame-scan'
      o.model = None if ok else 'std::%s<%s> at %s:%d iterates in heap-address order' % (m.group(1), ' '.join(args.split())[:80], rel, line)
      out.append(o)
  g = Obligation('C04/pytype/typegraph/frame#id-ordered-containers-found', 'frame', [], z3.BoolVal(n >= 3),
                 detail='the scan found %d ordered pointer-keyed containers in the typegraph sources' % n)
  g.owner = 'pytype/typegraph'
  g.prechecked = True
  g.status, g.backend, g.model = ('proved' if n >= 3 else 'unknown'), 'frame-scan', None
  g.undecided_if_no_witness = True
  out.append(g)
  return out


def extra_obligations(repo):
  from engine import frames
  return _extra_obligations_base(repo) + frames.equality_frames('C04', repo, [('pytype/errors/errors.py', 'Error', 'identity')]) + _cxx_pointer_order(repo)
