"""C12 (third sentence) — equality and hashing of pytd type nodes agree.

Lemma per class that defines its own __eq__/__hash__: a == b  ==>  hash(a) == hash(b), proved
over the real method bodies (inlined into a proof harness).  Every other node class gets the
msgspec-generated structural pair (external C code: assumed, sampled natively).
"""
import ast
import collections

import z3

from engine import sorts as S
from engine import source
from engine.core import Contract, Obligation, Theory

PY = 'pytype/pytd/pytd.py'
NODE_PY = 'pytype/pytd/parse/node.py'

# (class, method) pairs that define their own equality / hash in the two files, and how each is handled
KNOWN = {
    ('_SetOfTypes', '__eq__'): 'law proved',
    ('_SetOfTypes', '__hash__'): 'law proved',
    ('ClassType', '__eq__'): 'law proved',
    ('ClassType', '__ne__'): 'not part of the law',
    ('ClassType', '__hash__'): 'law proved',
    ('TypeDeclUnit', '__hash__'): 'law proved (identity equality: eq=False, hash = id)',
    ('Class', '__hash__'): 'assumed (delegates to the msgspec-generated hash of a copy without the cache field)',
}

LAW = '''
def __law__(a, b):
  e1 = a.__eq__(b)
  e2 = b.__eq__(a)
  ha = a.__hash__()
  hb = b.__hash__()
  return (e1, e2, ha, hb)
'''
LAW_ENS = ['implies(result[0] is True or (result[0] is NotImplemented and result[1] is True),'
           ' result[2] == result[3])']
LAW_ID = '''
def __law_same__(a):
  ha = a.__hash__()
  hb = a.__hash__()
  return (ha, hb)
'''


def build():
  T = Theory('C12')
  Ty = S.Uninterp('TypeU')
  SeqTy = S.Seq(Ty)
  T.sorts['TypeU'] = Ty
  for cn in ('UnionType', 'IntersectionType', '_SetOfTypes'):
    T.bind_obj(PY, cn, collections.OrderedDict(type_list=SeqTy))
  T.bind_obj(PY, 'ClassType', collections.OrderedDict(name=S.STR))
  T.bind_obj(PY, 'NamedType', collections.OrderedDict(name=S.STR))
  T.bind_obj(PY, 'TypeDeclUnit', collections.OrderedDict(name=S.STR))
  for q in ('_SetOfTypes.__eq__', '_SetOfTypes.__hash__', 'ClassType.__eq__', 'ClassType.__hash__',
            'TypeDeclUnit.__hash__'):
    T.inline.add((PY, q))
  T.assumptions += [
      'A-LIB: hash(frozenset) is a function of the set, hash(tuple) of the sequence of elements, hash(str) of the string; '
      'frozenset.__eq__ is set equality',
      'A-ELEM: the elements of type_list satisfy the law themselves (induction over the node tree; msgspec-generated pairs are external)',
      'A-MSGSPEC: msgspec-generated __eq__/__hash__ of every other Node class are structural and consistent (third-party C)',
      'Class.__hash__ (hash of a copy without _name2item) is assumed consistent with the msgspec __eq__; sampled natively only',
      '`a == b` is modelled as: a.__eq__(b) is True, or it is NotImplemented and b.__eq__(a) is True (identity fallback implies equal hashes)',
  ]
  def law(name, a, b=None, src=LAW, ens=None):
    params = collections.OrderedDict(a=('obj', a))
    if b:
      params['b'] = ('obj', b)
    c = Contract(PY, name, params, ensures=ens or LAW_ENS, instance={})
    c.harness_src = src
    T.add(c)
  law('law[UnionType,UnionType]', 'UnionType', 'UnionType')
  law('law[IntersectionType,IntersectionType]', 'IntersectionType', 'IntersectionType')
  law('law[UnionType,IntersectionType]', 'UnionType', 'IntersectionType')
  law('law[ClassType,ClassType]', 'ClassType', 'ClassType')
  law('law[ClassType,NamedType]', 'ClassType', 'NamedType',
      src=LAW.replace('e2 = b.__eq__(a)', 'e2 = NotImplemented').replace('hb = b.__hash__()', 'hb = 0'),
      ens=['result[0] is not True'])
  law('law[same UnionType]', 'UnionType', src=LAW_ID, ens=['result[0] == result[1]'])
  law('law[same TypeDeclUnit]', 'TypeDeclUnit', src=LAW_ID, ens=['result[0] == result[1]'])
  return T


def scan(repo):
  found = {}
  for f in (PY, NODE_PY):
    m = source.load(repo, f)
    for q, node in m.defs.items():
      if isinstance(node, ast.FunctionDef) and '.' in q and q.split('.')[-1] in ('__eq__', '__hash__', '__ne__'):
        found[tuple(q.rsplit('.', 1))] = (f, node.lineno)
    # class-level `__hash__ = ...` / `__eq__ = ...`
    for q, node in m.defs.items():
      if isinstance(node, ast.ClassDef):
        for st in node.body:
          if isinstance(st, ast.Assign):
            for t in st.targets:
              if isinstance(t, ast.Name) and t.id in ('__eq__', '__hash__', '__ne__'):
                found[(q, t.id)] = (f, st.lineno)
  return found


def extra_obligations(repo):
  """Frame: no class outside the contracts defines its own equality or hash."""
  out = []
  found = scan(repo)
  for key, (f, line) in sorted(found.items()):
    if key in KNOWN:
      continue
    o = Obligation('C12/%s::%s.%s/frame#1' % (f, key[0], key[1]), 'frame', [], z3.BoolVal(False), line=line,
                   detail='%s.%s defines its own equality/hash but is not under contract' % key)
    o.owner = '%s::%s' % (f, key[0])
    o.undecided_if_no_witness = True
    out.append(o)
  o = Obligation('C12/%s/frame#known' % PY, 'frame', [], z3.BoolVal(all(k in found for k in KNOWN)),
                 detail='every eq/hash definition named in the contracts still exists: %s' % sorted(
                     k for k in KNOWN if k not in found))
  o.owner = PY
  o.undecided_if_no_witness = True
  out.append(o)
  # TypeDeclUnit must keep identity equality for `hash = id(self)` to be lawful
  m = source.load(repo, PY)
  kws = {k.arg: ast.unparse(k.value) for k in m.cls('TypeDeclUnit').keywords}
  o = Obligation('C12/%s::TypeDeclUnit/frame#eqFalse' % PY, 'frame', [], z3.BoolVal(kws.get('eq') == 'False'),
                 detail='TypeDeclUnit is declared eq=False (identity equality) so hashing by id is lawful')
  o.owner = PY + '::TypeDeclUnit'
  out.append(o)
  kws = {k.arg: ast.unparse(k.value) for k in m.cls('_SetOfTypes').keywords}
  o = Obligation('C12/%s::_SetOfTypes/frame#eqFalse' % PY, 'frame', [], z3.BoolVal(kws.get('eq') == 'False'),
                 detail='_SetOfTypes is declared eq=False so that its own __eq__/__hash__ are the ones used')
  o.owner = PY + '::_SetOfTypes'
  out.append(o)
  return out


NATIVE_IN_QUICK = True
SURROUND = ['msgspec encode/decode round trip (pickle_utils), serialize_ast.SerializeAst/ProcessAst, byte stability: '
            'first two sentences of C12 are NOT decided (third-party C + visitor code)',
            '_FlattenTypes / __post_init__ (dedup through dict.fromkeys relies on the law; not needed by the lemma)']
MUTANTS = [
    dict(name='hash_ordered_tuple', file=PY,
         old="    return hash(frozenset(self.type_list))\n", new="    return hash(self.type_list)\n"),
    dict(name='eq_ordered', file=PY, expect=0,
         old="      return frozenset(self.type_list) == frozenset(other.type_list)\n",
         new="      return self.type_list == other.type_list\n"),
    dict(name='eq_ignores_class_still_lawful', file=PY, expect=0,
         old="    if isinstance(other, type(self)):\n      # equality", new="    if isinstance(other, _SetOfTypes):\n      # equality"),
    dict(name='classtype_hash_drops_name', file=PY, expect=0,
         old="    return hash((self.__class__.__name__, self.name))\n", new="    return hash(self.__class__.__name__)\n"),
    dict(name='classtype_eq_ignores_name', file=PY,
         old="    return self.__class__ == other.__class__ and self.name == other.name\n",
         new="    return self.__class__ == other.__class__\n"),
]
