"""C03 — a disable comment silences exactly that error: the line-set kernel of directors.py."""
import collections

import z3

from engine import sorts as S
from engine.core import Contract, Loop, Theory
from engine.values import V, Builtin

PY = 'pytype/directors/directors.py'


def build():
  T = Theory('C03')
  Lines = S.DictOf(S.INT, S.BOOL)
  Trans = S.Seq(S.INT)
  T.bind_obj(PY, '_LineSet', collections.OrderedDict(_lines=Lines, _transitions=Trans))
  ZT = Trans.z3()
  bpos = z3.Function('bisect_right', ZT, z3.IntSort(), z3.IntSort())
  inc = z3.Function('strictly_increasing', ZT, z3.BoolSort())
  s = z3.Const('s', ZT)
  x, k, j = z3.Ints('x k j')
  at, ln = Trans.at, Trans.len
  T.axioms += [
      z3.ForAll([s], inc(s) == z3.ForAll([j, k], z3.Implies(z3.And(0 <= j, j < k, k < ln(s)), at(s, j) < at(s, k))),
                patterns=[inc(s)]),
      # A-LIB bisect.bisect(a, x) on a sorted list: the insertion point to the right of any equal entries
      z3.ForAll([s, x], z3.Implies(z3.And(inc(s), ln(s) >= 0), z3.And(
          0 <= bpos(s, x), bpos(s, x) <= ln(s),
          z3.ForAll([k], z3.Implies(z3.And(0 <= k, k < bpos(s, x)), at(s, k) <= x)),
          z3.ForAll([k], z3.Implies(z3.And(bpos(s, x) <= k, k < ln(s)), at(s, k) > x)))),
                patterns=[bpos(s, x)]),
  ]
  isb = z3.Function('is_bisect_pos', ZT, z3.IntSort(), z3.IntSort(), z3.BoolSort())
  p = z3.Int('p')
  T.axioms.append(z3.ForAll([s, x, p], isb(s, x, p) == z3.And(
      0 <= p, p <= ln(s),
      z3.ForAll([k], z3.Implies(z3.And(0 <= k, k < p), at(s, k) <= x)),
      z3.ForAll([k], z3.Implies(z3.And(p <= k, k < ln(s)), at(s, k) > x))), patterns=[isb(s, x, p)]))
  # the insertion point is unique (consequence of the library contract; proved on every run)
  b_ = bpos(s, x)
  pre_ = z3.And(inc(s), ln(s) >= 0)
  T.lemmas += [
      ('bisect_h1', z3.ForAll([s, x, p], z3.Implies(z3.And(isb(s, x, p), 0 <= b_, b_ < p), at(s, b_) <= x), patterns=[isb(s, x, p)])),
      ('bisect_h2', z3.ForAll([s, x], z3.Implies(z3.And(pre_, b_ < ln(s)), at(s, b_) > x), patterns=[bpos(s, x)])),
      ('bisect_h3', z3.ForAll([s, x, p], z3.Implies(z3.And(isb(s, x, p), p < ln(s)), at(s, p) > x), patterns=[isb(s, x, p)])),
      ('bisect_h4', z3.ForAll([s, x, p], z3.Implies(z3.And(pre_, 0 <= p, p < b_), at(s, p) <= x),
                              patterns=[z3.MultiPattern(bpos(s, x), at(s, p))])),
  ]
  T.lemmas.append(('bisect_unique', z3.ForAll([s, x, p], z3.Implies(
      z3.And(isb(s, x, p), inc(s), ln(s) >= 0), bpos(s, x) == p), patterns=[isb(s, x, p)])))
  from engine.values import Obj

  def fld(o, f):
    return o.fields[f].t

  def member(o, kk):
    lines, tr = fld(o, '_lines'), fld(o, '_transitions')
    return z3.If(Lines.has(lines, kk), Lines.get(lines, kk), bpos(tr, kk) % 2 == 1)
  B = lambda nm, f: Builtin(nm, f, needs_ex=True)
  T.symbols['member'] = B('member', lambda ex, a, k, n: V(S.BOOL, member(a[0], ex.as_int(a[1]))))
  T.symbols['RI'] = B('RI', lambda ex, a, k, n: V(S.BOOL, inc(fld(a[0], '_transitions'))))
  T.symbols['isbpos'] = B('isbpos', lambda ex, a, k, n: V(S.BOOL, isb(a[0].t, ex.as_int(a[1]), ex.as_int(a[2]))))
  T.symbols['bpos'] = B('bpos', lambda ex, a, k, n: V(S.INT, bpos(a[0].t, ex.as_int(a[1]))))
  T.builtin_models = {'bisect.bisect': lambda ex, a, k, n: V(S.INT, bpos(a[0].t, ex.as_int(a[1])))}
  T.exc_parents['ValueError'] = 'Exception'
  T.assumptions += [
      'A-LIB: bisect.bisect(a, x) on a strictly increasing list returns the unique p with a[:p] <= x < a[p:]',
      'view: member(ls, k) = ls._lines[k] if k has a per-line entry, else parity of the number of transitions <= k',
      'line numbers are mathematical integers',
  ]
  me = ('obj', '_LineSet')
  T.add(Contract(PY, '_LineSet.__init__', collections.OrderedDict(self=me),
                 ensures=['RI(self)', 'all(not member(self, q) for q in every("Int"))']))
  T.add(Contract(PY, '_LineSet.set_line', collections.OrderedDict(self=me, line=S.INT, membership=S.BOOL),
                 requires=['RI(self)'],
                 ensures=['RI(self)', 'same(self._transitions, old(self._transitions))',
                          'all(member(self, q) == ite(q == line, membership, member(old(self), q)) for q in every("Int"))']))
  T.add(Contract(PY, '_LineSet.start_range', collections.OrderedDict(self=me, line=S.INT, membership=S.BOOL),
                 requires=['RI(self)', 'line >= 0'],
                 raises={'ValueError': 'len(self._transitions) > 0 and line < self._transitions[len(self._transitions) - 1]'},
                 asserts={
                     'self._transitions.append(line)': [
                         'all(isbpos(self._transitions, q, ite(q >= line, len(old(self._transitions)) + 1, bpos(old(self._transitions), q)))'
                         ' for q in every("Int"))'],
                     'self._transitions.pop()': [
                         'all(isbpos(self._transitions, q, ite(q >= line, len(old(self._transitions)) - 1, bpos(old(self._transitions), q)))'
                         ' for q in every("Int"))'],
                 },
                 ensures=['RI(self)', 'same(self._lines, old(self._lines))',
                          'all(implies(q >= line, isbpos(old(self._transitions), q, len(old(self._transitions)))) for q in every("Int"))',
                          # lines without a per-line entry: from `line` on the membership is the new one, before it nothing changes
                          'all(implies(q not in self._lines, member(self, q) == ite(q >= line, membership, member(old(self), q)))'
                          ' for q in every("Int"))']))
  T.add(Contract(PY, '_LineSet.__contains__', collections.OrderedDict(self=me, line=S.INT),
                 requires=['RI(self)'],
                 ensures=['result == member(self, line)',
                          'same(self._lines, old(self._lines)) and same(self._transitions, old(self._transitions))'],
                 result=S.BOOL))
  return T


SURROUND = ['Director._process_disable / _process_type / filter_error (dict of mutable _LineSet objects: bounded VM sweep only)',
            'directors/parser.py (comment grouping, logical line ranges)', 'the VM\'s choice of the reported line', 'ErrorLog._add wiring',
            'abstract_utils.eval_expr (errors of separately compiled annotation strings must not be matched against the file\'s directives)']
NATIVE_IN_QUICK = True
MUTANTS = [
    dict(name='contains_even_parity', file=PY, old="    return (pos % 2) == 1\n", new="    return (pos % 2) == 0\n"),
    dict(name='contains_bisect_left', file=PY, old="    pos = bisect.bisect(self._transitions, line)\n",
         new="    pos = bisect.bisect_left(self._transitions, line)\n", expect=3),
    dict(name='specific_ignored', file=PY, old="    if specific is not None:\n      return specific\n", new=""),
    dict(name='start_range_always_appends', file=PY,
         old="    if membership == previous:\n      return  # Redundant with previous state, do nothing.\n    elif line == last:",
         new="    if line == last:"),
    dict(name='start_range_no_cancel', file=PY,
         old="      self._transitions.pop()\n", new="      self._transitions.append(line)\n"),
    dict(name='start_range_lt_to_le', file=PY,
         old="    if line < last:\n      raise ValueError", new="    if line <= last:\n      raise ValueError"),
    dict(name='set_line_inverted', file=PY, old="    self._lines[line] = membership\n", new="    self._lines[line] = not membership\n"),
]
