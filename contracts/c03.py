"""C03 — a disable comment silences exactly that error: the line-set kernel of directors.py."""
import collections

import z3

from engine import sorts as S
from engine.core import Contract, Loop, Theory
from engine.values import V, Builtin

PY = 'pytype/directors/directors.py'


def build():
  return [build_lineset(), build_director()]


def build_lineset():
  T = Theory('C03')
  Lines = S.DictOf(S.INT, S.BOOL)
  Trans = S.Seq(S.INT)
  T.bind_obj(PY, '_LineSet', collections.OrderedDict(_lines=Lines, _transitions=Trans))
  ZT = Trans.z3()
  bpos = z3.Function('bisect_right', ZT, z3.IntSort(), z3.IntSort())
  inc = z3.Function('strictly_increasing', ZT, z3.BoolSort())
  s = z3.Const('s', ZT)
  x, k, j = z3.Ints('x k j')
  at, ln = Trans.at, Trans.len
  T.axioms += [
      z3.ForAll([s], inc(s) == z3.ForAll([j, k], z3.Implies(z3.And(0 <= j, j < k, k < ln(s)), at(s, j) < at(s, k))),
                patterns=[inc(s)]),
      # A-LIB bisect.bisect(a, x) on a sorted list: the insertion point to the right of any equal entries
      z3.ForAll([s, x], z3.Implies(z3.And(inc(s), ln(s) >= 0), z3.And(
          0 <= bpos(s, x), bpos(s, x) <= ln(s),
          z3.ForAll([k], z3.Implies(z3.And(0 <= k, k < bpos(s, x)), at(s, k) <= x)),
          z3.ForAll([k], z3.Implies(z3.And(bpos(s, x) <= k, k < ln(s)), at(s, k) > x)))),
                patterns=[bpos(s, x)]),
  ]
  isb = z3.Function('is_bisect_pos', ZT, z3.IntSort(), z3.IntSort(), z3.BoolSort())
  p = z3.Int('p')
  T.axioms.append(z3.ForAll([s, x, p], isb(s, x, p) == z3.And(
      0 <= p, p <= ln(s),
      z3.ForAll([k], z3.Implies(z3.And(0 <= k, k < p), at(s, k) <= x)),
      z3.ForAll([k], z3.Implies(z3.And(p <= k, k < ln(s)), at(s, k) > x))), patterns=[isb(s, x, p)]))
  # the insertion point is unique (consequence of the library contract; proved on every run)
  b_ = bpos(s, x)
  pre_ = z3.And(inc(s), ln(s) >= 0)
  T.lemmas += [
      ('bisect_h1', z3.ForAll([s, x, p], z3.Implies(z3.And(isb(s, x, p), 0 <= b_, b_ < p), at(s, b_) <= x), patterns=[isb(s, x, p)])),
      ('bisect_h2', z3.ForAll([s, x], z3.Implies(z3.And(pre_, b_ < ln(s)), at(s, b_) > x), patterns=[bpos(s, x)])),
      ('bisect_h3', z3.ForAll([s, x, p], z3.Implies(z3.And(isb(s, x, p), p < ln(s)), at(s, p) > x), patterns=[isb(s, x, p)])),
      ('bisect_h4', z3.ForAll([s, x, p], z3.Implies(z3.And(pre_, 0 <= p, p < b_), at(s, p) <= x),
                              patterns=[z3.MultiPattern(bpos(s, x), at(s, p))])),
  ]
  T.lemmas.append(('bisect_unique', z3.ForAll([s, x, p], z3.Implies(
      z3.And(isb(s, x, p), inc(s), ln(s) >= 0), bpos(s, x) == p), patterns=[isb(s, x, p)])))
  from engine.values import Obj

  def fld(o, f):
    return o.fields[f].t

  def member(o, kk):
    lines, tr = fld(o, '_lines'), fld(o, '_transitions')
    return z3.If(Lines.has(lines, kk), Lines.get(lines, kk), bpos(tr, kk) % 2 == 1)
  B = lambda nm, f: Builtin(nm, f, needs_ex=True)
  T.symbols['member'] = B('member', lambda ex, a, k, n: V(S.BOOL, member(a[0], ex.as_int(a[1]))))
  T.symbols['RI'] = B('RI', lambda ex, a, k, n: V(S.BOOL, inc(fld(a[0], '_transitions'))))
  T.symbols['isbpos'] = B('isbpos', lambda ex, a, k, n: V(S.BOOL, isb(a[0].t, ex.as_int(a[1]), ex.as_int(a[2]))))
  T.symbols['bpos'] = B('bpos', lambda ex, a, k, n: V(S.INT, bpos(a[0].t, ex.as_int(a[1]))))
  T.builtin_models = {'bisect.bisect': lambda ex, a, k, n: V(S.INT, bpos(a[0].t, ex.as_int(a[1])))}
  T.exc_parents['ValueError'] = 'Exception'
  T.assumptions += [
      'A-LIB: bisect.bisect(a, x) on a strictly increasing list returns the unique p with a[:p] <= x < a[p:]',
      'view: member(ls, k) = ls._lines[k] if k has a per-line entry, else parity of the number of transitions <= k',
      'line numbers are mathematical integers',
  ]
  me = ('obj', '_LineSet')
  T.add(Contract(PY, '_LineSet.__init__', collections.OrderedDict(self=me),
                 ensures=['RI(self)', 'all(not member(self, q) for q in every("Int"))']))
  T.add(Contract(PY, '_LineSet.set_line', collections.OrderedDict(self=me, line=S.INT, membership=S.BOOL),
                 requires=['RI(self)'],
                 ensures=['RI(self)', 'same(self._transitions, old(self._transitions))',
                          'all(member(self, q) == ite(q == line, membership, member(old(self), q)) for q in every("Int"))']))
  T.add(Contract(PY, '_LineSet.start_range', collections.OrderedDict(self=me, line=S.INT, membership=S.BOOL),
                 requires=['RI(self)', 'line >= 0'],
                 raises={'ValueError': 'len(self._transitions) > 0 and line < self._transitions[len(self._transitions) - 1]'},
                 asserts={
                     'self._transitions.append(line)': [
                         'all(isbpos(self._transitions, q, ite(q >= line, len(old(self._transitions)) + 1, bpos(old(self._transitions), q)))'
                         ' for q in every("Int"))'],
                     'self._transitions.pop()': [
                         'all(isbpos(self._transitions, q, ite(q >= line, len(old(self._transitions)) - 1, bpos(old(self._transitions), q)))'
                         ' for q in every("Int"))'],
                 },
                 ensures=['RI(self)', 'same(self._lines, old(self._lines))',
                          'all(implies(q >= line, isbpos(old(self._transitions), q, len(old(self._transitions)))) for q in every("Int"))',
                          # lines without a per-line entry: from `line` on the membership is the new one, before it nothing changes
                          'all(implies(q not in self._lines, member(self, q) == ite(q >= line, membership, member(old(self), q)))'
                          ' for q in every("Int"))']))
  T.add(Contract(PY, '_LineSet.__contains__', collections.OrderedDict(self=me, line=S.INT),
                 requires=['RI(self)'],
                 ensures=['result == member(self, line)',
                          'same(self._lines, old(self._lines)) and same(self._transitions, old(self._transitions))'],
                 result=S.BOOL))
  return T


LS_FIELDS = [('_lines', S.DictOf(S.INT, S.BOOL)), ('_transitions', S.Seq(S.INT))]


def build_director():
  """Second theory: Director._process_disable / _adjust_line_number_for_pytype_directive / filter_error.

  Here a _LineSet is a value (record) held in the Director's dict; its methods are used through their
  contracts only -- the clauses proved in the first theory, restated over the view `member`."""
  T = Theory('C03')
  Lines, Trans = LS_FIELDS[0][1], LS_FIELDS[1][1]
  LS = S.Rec('LineSet', LS_FIELDS)
  T.bind_rec(PY, '_LineSet', LS)
  ZT = Trans.z3()
  bpos = z3.Function('bisect_right', ZT, z3.IntSort(), z3.IntSort())
  inc = z3.Function('strictly_increasing', ZT, z3.BoolSort())
  s_ = z3.Const('s', ZT)
  j, k = z3.Ints('j k')
  at, ln = Trans.at, Trans.len
  T.axioms += [z3.ForAll([s_], inc(s_) == z3.ForAll([j, k], z3.Implies(z3.And(0 <= j, j < k, k < ln(s_)), at(s_, j) < at(s_, k))),
                         patterns=[inc(s_)])]

  def member(v, kk):
    lines, tr = LS.field('_lines', v.t), LS.field('_transitions', v.t)
    return z3.If(Lines.has(lines, kk), Lines.get(lines, kk), bpos(tr, kk) % 2 == 1)
  B = lambda nm, f: Builtin(nm, f, needs_ex=True)
  T.symbols['member'] = B('member', lambda ex, a, k_, n: V(S.BOOL, member(ex.coerce(a[0], LS), ex.as_int(a[1]))))
  T.symbols['RI'] = B('RI', lambda ex, a, k_, n: V(S.BOOL, inc(LS.field('_transitions', ex.coerce(a[0], LS).t))))
  T.symbols['has_line'] = B('has_line', lambda ex, a, k_, n: V(S.BOOL, Lines.has(LS.field('_lines', ex.coerce(a[0], LS).t), ex.as_int(a[1]))))
  ELog = S.Uninterp('ErrorLogRef')
  LRange = S.Uninterp('LineRange')
  Err = S.Uninterp('ErrorObj')
  FR = S.Uninterp('BlockRanges')
  valid = z3.Function('is_valid_error_name', S.STR.z3(), z3.BoolSort())
  start_line = z3.Function('start_line', LRange.z3(), z3.IntSort())
  is_call = z3.Function('is_call_range', LRange.z3(), z3.BoolSort())
  T.method_models[(ELog.name, 'is_valid_error_name')] = lambda ex, recv, a, k_: V(S.BOOL, valid(ex.coerce(a[0], S.STR).t))
  from engine.values import NONE
  T.method_models[(ELog.name, 'invalid_directive')] = lambda ex, recv, a, k_: NONE   # logging of a malformed directive: no effect on the line sets
  T.attr_models[(LRange.name, 'start_line')] = lambda ex, v: V(S.INT, start_line(v.t))
  T.attr_models[(LRange.name, 'isinstance:Call')] = lambda ex, v: is_call(v.t)
  e_name = z3.Function('error_name', Err.z3(), S.STR.z3())
  e_file = z3.Function('error_filename', Err.z3(), S.Opt(S.STR).z3())
  e_line = z3.Function('error_line', Err.z3(), S.Opt(S.INT).z3())
  e_op = z3.Function('error_opcode_name', Err.z3(), S.Opt(S.STR).z3())
  T.attr_models[(Err.name, 'name')] = lambda ex, v: V(S.STR, e_name(v.t))
  T.attr_models[(Err.name, 'filename')] = lambda ex, v: V(S.Opt(S.STR), e_file(v.t))
  T.attr_models[(Err.name, 'opcode_name')] = lambda ex, v: V(S.Opt(S.STR), e_op(v.t))
  # error.line is read, possibly rewritten by set_line(end), and read again: ghost variable `cur_line`
  OptI = S.Opt(S.INT)
  T.attr_models[(Err.name, 'line')] = lambda ex, v: ex.env['cur_line'] if 'cur_line' in ex.env else V(OptI, e_line(v.t))
  T.symbols['line0'] = B('line0', lambda ex, a, k_, n: V(OptI, e_line(a[0].t)))
  T.symbols['line_now'] = B('line_now', lambda ex, a, k_, n: ex.env['cur_line'] if 'cur_line' in ex.env else V(OptI, e_line(a[0].t)))

  def set_line(ex, recv, a, k_):
    ex.env['cur_line'] = ex.coerce(a[0], S.Opt(S.INT))
    return NONE
  T.method_models[(Err.name, 'set_line')] = set_line
  fo_end = z3.Function('find_outermost_end', FR.z3(), z3.IntSort(), S.Opt(S.INT).z3())
  fo_start = z3.Function('find_outermost_start', FR.z3(), z3.IntSort(), S.Opt(S.INT).z3())
  from engine.values import PyTuple
  T.method_models[(FR.name, 'find_outermost')] = lambda ex, recv, a, k_: PyTuple([
      V(S.Opt(S.INT), fo_start(recv.t, ex.as_int(a[0]))), V(S.Opt(S.INT), fo_end(recv.t, ex.as_int(a[0])))])
  T.symbols['implicit_return_end'] = B('implicit_return_end', lambda ex, a, k_, n: V(S.Opt(S.INT), fo_end(a[0].t, ex.as_int(a[1]))))
  T.symbols['start_line'] = B('start_line', lambda ex, a, k_, n: V(S.INT, start_line(a[0].t)))
  T.symbols['is_call'] = B('is_call', lambda ex, a, k_, n: V(S.BOOL, is_call(a[0].t)))
  T.symbols['valid_name'] = B('valid_name', lambda ex, a, k_, n: V(S.BOOL, valid(ex.coerce(a[0], S.STR).t)))
  T.exc_parents['ValueError'] = 'Exception'
  T.exc_parents['_DirectiveError'] = 'Exception'
  Dis = S.DictOf(S.STR, LS)
  T.bind_obj(PY, 'Director', collections.OrderedDict(
      _disables=Dis, _ignore=LS, _errorlog=ELog, _filename=S.STR, return_lines=S.SetOf(S.INT), _function_ranges=FR))
  T.assumptions += [
      'second theory (Director): a _LineSet is a value held in Director._disables; distinct keys hold distinct objects (only the defaultdict factory inserts)',
      'A-DEFAULTDICT: `self._disables` (collections.defaultdict(_LineSet)) is modelled as a dict in which every key is present; a key that '
      'was never touched holds an empty _LineSet (member is False everywhere -- proved for _LineSet.__init__ in the first theory)',
      'the contracts of _LineSet.set_line / start_range / __contains__ used at the call sites are the clauses proved in the first theory',
      'errorlog.is_valid_error_name is a pure predicate; errorlog.invalid_directive has no effect on the line sets; line_range.start_line is a stable read',
      'error.line / error.set_line are modelled by one ghost variable; _BlockRanges.find_outermost is an uninterpreted function of the line',
  ]
  ls = collections.OrderedDict
  T.add(Contract(PY, '_LineSet.set_line', ls(self=LS, line=S.INT, membership=S.BOOL), mutates=('self',), verify=False,
                 requires=['RI(self)'],
                 ensures=['RI(self)', 'same(self._transitions, old(self._transitions))',
                          'all(member(self, q) == ite(q == line, membership, member(old(self), q)) for q in every("Int"))',
                          'all(has_line(self, q) == (q == line or has_line(old(self), q)) for q in every("Int"))'],
                 note='proved in the first theory (view clauses)'))
  T.add(Contract(PY, '_LineSet.start_range', ls(self=LS, line=S.INT, membership=S.BOOL), mutates=('self',), verify=False,
                 requires=['RI(self)', 'line >= 0'],
                 raises={'ValueError': 'len(self._transitions) > 0 and line < self._transitions[len(self._transitions) - 1]'},
                 ensures=['RI(self)', 'same(self._lines, old(self._lines))',
                          'all(implies(not has_line(self, q), member(self, q) == ite(q >= line, membership, member(old(self), q))) for q in every("Int"))',
                          'all(implies(has_line(self, q), member(self, q) == member(old(self), q)) for q in every("Int"))'],
                 note='proved in the first theory (view clauses)'))
  T.add(Contract(PY, '_LineSet.__contains__', ls(self=LS, line=S.INT), verify=False,
                 requires=['RI(self)'], ensures=['result == member(self, line)'], result=S.BOOL,
                 note='proved in the first theory'))
  me = ('obj', 'Director')
  T.add(Contract(PY, 'Director._adjust_line_number_for_pytype_directive',
                 ls(self=me, line=S.INT, error_class=S.STR, line_range=LRange),
                 ensures=['result == (start_line(line_range) if error_class in _ALL_ADJUSTABLE_ERRORS else line)'], result=S.INT))
  allkeys = 'all(E in self._disables for E in every("Str"))'
  allri = 'all(RI(self._disables[E]) for E in every("Str"))'
  eff = '(%s and (E == "*" or valid_name(E)) and (not is_call(line_range) or E in _FUNCTION_CALL_ERRORS))'
  adj = '(start_line(line_range) if E in _ALL_ADJUSTABLE_ERRORS else line)'
  closed_new = 'ite(q == line or q == %s, disable, member(old(self._disables)[E], q))' % adj
  open_new = ('ite(has_line(old(self._disables)[E], q), member(old(self._disables)[E], q),'
              ' ite(q >= line, disable, member(old(self._disables)[E], q)))')

  def post(done):
    return ['all(all(member(self._disables[E], q) == ite(%s, ite(open_ended, %s, %s), member(old(self._disables)[E], q))'
            ' for q in every("Int")) for E in every("Str"))' % (eff % done, open_new, closed_new)]
  frame = ['same(self._ignore, old(self._ignore))', allkeys, allri]
  T.add(Contract(
      PY, 'Director._process_disable',
      ls(self=me, line=S.INT, line_range=LRange, open_ended=S.BOOL, values=S.SetOf(S.STR), disable=S.BOOL),
      requires=[allkeys, allri, 'line >= 0'],
      # the property's statement at this level: the directive changes the verdict for the named error classes on its own line
      # (and the statement's first line, finding F6) -- or from its line on when open-ended -- and for nothing else
      ensures=post('E in values') + frame,
      raises={'_DirectiveError': 'len(values) == 0'},
      may_raise=('ValueError',),
      loops={0: Loop(post('any(S_[j] == E for j in range(i))') + frame + [
          # per-line entries only grow, and only on this line / the adjusted line (needed for the open-ended clause of later iterations)
      ], index='i', seq='S_')},
      ghost={}))
  T.add(Contract(
      PY, 'Director.filter_error', ls(self=me, error=Err),
      requires=[allkeys, allri, 'RI(self._ignore)'],
      ensures=[
          # errors of other files or without a line are always reported
          'implies(line0(error) is None or error.filename != self._filename, result)',
          # otherwise: reported iff the line the error ends up on (after the implicit-return adjustment; 0 = below the file) is subject to
          # no `type: ignore`, no disable=* and no disable of its own class
          'implies(not (line0(error) is None or error.filename != self._filename), result == (not ('
          'member(self._ignore, line_now(error) or sys.maxsize) or member(self._disables["*"], line_now(error) or sys.maxsize)'
          ' or member(self._disables[error.name], line_now(error) or sys.maxsize))))',
          # the line is only ever moved for an implicit `return None` (bad-return-type at a line without a return statement)
          'implies(not (error.name == "bad-return-type" and line0(error) is not None and line0(error) not in self.return_lines), same(line_now(error), line0(error)))',
          'same(self._disables, old(self._disables)) and same(self._ignore, old(self._ignore))',
      ],
      ghost={'cur_line': S.Opt(S.INT)}, result=S.BOOL))
  return T


SURROUND = ['Director._process_disable / _process_type / filter_error (dict of mutable _LineSet objects: bounded VM sweep only)',
            'directors/parser.py (comment grouping, logical line ranges)', 'the VM\'s choice of the reported line', 'ErrorLog._add wiring',
            'abstract_utils.eval_expr (errors of separately compiled annotation strings must not be matched against the file\'s directives)']
NATIVE_IN_QUICK = True
MUTANTS = [
    dict(name='contains_even_parity', file=PY, old="    return (pos % 2) == 1\n", new="    return (pos % 2) == 0\n"),
    dict(name='contains_bisect_left', file=PY, old="    pos = bisect.bisect(self._transitions, line)\n",
         new="    pos = bisect.bisect_left(self._transitions, line)\n", expect=3),
    dict(name='specific_ignored', file=PY, old="    if specific is not None:\n      return specific\n", new=""),
    dict(name='start_range_always_appends', file=PY,
         old="    if membership == previous:\n      return  # Redundant with previous state, do nothing.\n    elif line == last:",
         new="    if line == last:"),
    dict(name='start_range_no_cancel', file=PY,
         old="      self._transitions.pop()\n", new="      self._transitions.append(line)\n"),
    dict(name='start_range_lt_to_le', file=PY,
         old="    if line < last:\n      raise ValueError", new="    if line <= last:\n      raise ValueError"),
    dict(name='set_line_inverted', file=PY, old="    self._lines[line] = membership\n", new="    self._lines[line] = not membership\n"),
    # Director (second theory)
    dict(name='dir_no_final_line', file=PY, old="          lines.set_line(final_line, disable)\n", new="          pass\n"),
    dict(name='dir_no_own_line', file=PY, old="            lines.set_line(line, disable)\n", new="            pass\n"),
    dict(name='dir_open_inverted', file=PY, old="          lines.start_range(line, disable)\n", new="          lines.start_range(line, not disable)\n"),
    dict(name='dir_keep_inverted', file=PY, old="        return error_name in _FUNCTION_CALL_ERRORS\n", new="        return error_name not in _FUNCTION_CALL_ERRORS\n"),
    dict(name='dir_adjust_never', file=PY, old="    if error_class not in _ALL_ADJUSTABLE_ERRORS:\n      return line\n    return line_range.start_line\n",
         new="    return line\n"),
    dict(name='dir_wrong_key', file=PY, old="        lines = self._disables[error_name]\n", new="        lines = self._disables[_ALL_ERRORS]\n"),
    dict(name='filter_drop_star', file=PY, old="        and line not in self._disables[_ALL_ERRORS]\n", new=""),
    dict(name='filter_or', file=PY, old="        and line not in self._disables[error.name]\n", new="        or line not in self._disables[error.name]\n"),
    dict(name='filter_other_file_silenced', file=PY, old="    if error.filename != self._filename or error.line is None:\n      return True\n",
         new="    if error.line is None:\n      return True\n"),
    dict(name='filter_adjust_all_errors', file=PY, old='        error.name == "bad-return-type"\n        and error.opcode_name', new='        error.opcode_name'),
]
