"""C04 frame obligations over the whole pytype package (not only the functions under contract).

Two implicit contracts every function of the analysis pipeline has to satisfy for C04 to hold:

* ORDER: a value computed by a function does not depend on the iteration order of a `set`
  (which for str elements depends on PYTHONHASHSEED, for objects on their addresses = process
  history).  Obligation per *order leak*: a syntactic place where an element is picked from, or a
  sequence is built in, the iteration order of an expression that is syntactically a set
  (set(...), {..}, set comprehension, set algebra on those, or a local name bound to one).
  An obligation is discharged when (i) the set is guarded to be a singleton in the same function
  (`len(s) == 1`-style test on the same expression), or (ii) the site is in the committed review list
  contracts/c04_order_reviewed.json (a stated assumption, listed in the evidence) -- matched by
  (file, function, kind, source text of the expression), so moving code around does not matter.
  Anything else is a failed obligation.  Direct leaks (return of the element from inside the loop,
  join, next(iter()), pop, indexing list(s)) count as violations; indirect ones (list(s)/tuple(s),
  append/yield inside the loop -- often followed by a sort) only as undecided.

* STATE: no function of the package is memoised process-wide (functools.lru_cache / functools.cache /
  a module-level dict used as a memo table) beyond the committed review list.  pytd nodes compare equal
  more coarsely than they behave (UnionType ignores member order, ClassType ignores its `cls` pointer),
  so a memo keyed by node equality makes an answer depend on which equal node was seen first in the
  process.  A new memoised function is a failed obligation; the native stage looks for a concrete
  witness (two equal arguments on which the unmemoised function differs).

This is a typestate/effect check in the style of C08's, not a functional proof: it is sound only for
the syntactic shapes above (a set reaching an order-sensitive consumer through an attribute, a
parameter or a call is not seen) -- stated in the evidence.
"""
import ast
import json
import os

import z3

from engine.core import Obligation

HERE = os.path.dirname(os.path.abspath(__file__))
SETCALLS = {'set', 'frozenset'}
SETMETH = {'difference', 'union', 'intersection', 'symmetric_difference', 'copy'}
DIRECT = {'return(x)', 'join(set)', 'next(set)', 'iter(set)', 'set.pop', 'index(list(set))', 'break'}
MEMO_DECOS = {'lru_cache', 'cache'}


def _is_set_expr(e, setvars):
  if isinstance(e, (ast.Set, ast.SetComp)):
    return True
  if isinstance(e, ast.Attribute) and isinstance(e.value, ast.Name) and e.value.id == 'self' and ('self.' + e.attr) in setvars:
    return True
  if isinstance(e, ast.Call):
    f = e.func
    if isinstance(f, ast.Name) and f.id in SETCALLS:
      return True
    if isinstance(f, ast.Attribute) and f.attr in SETMETH and _is_set_expr(f.value, setvars):
      return True
  if isinstance(e, ast.Name) and e.id in setvars:
    return True
  if isinstance(e, ast.BinOp) and isinstance(e.op, (ast.BitOr, ast.BitAnd, ast.Sub, ast.BitXor)) and (
      _is_set_expr(e.left, setvars) and _is_set_expr(e.right, setvars)):
    return True
  return False


def _singleton_guarded(fnode, expr):
  """`len(<expr>) == 1` / `!= 1` / `> 1` / `< 2` ... on the same expression somewhere in the function."""
  want = ast.unparse(expr)
  for n in ast.walk(fnode):
    if isinstance(n, ast.Compare) and len(n.ops) == 1 and isinstance(n.left, ast.Call) and isinstance(
        n.left.func, ast.Name) and n.left.func.id == 'len' and n.left.args and ast.unparse(n.left.args[0]) == want:
      c = n.comparators[0]
      if isinstance(c, ast.Constant) and c.value in (1, 2):
        return True
  return False


def _own_nodes(fnode):
  """Nodes of this function, not of functions nested in it."""
  stack = list(ast.iter_child_nodes(fnode))
  while stack:
    n = stack.pop()
    yield n
    if not isinstance(n, (ast.FunctionDef, ast.AsyncFunctionDef, ast.Lambda)):
      stack.extend(ast.iter_child_nodes(n))


def scan_file(relpath, text):
  """-> (order sites, memo sites); a site = dict(file, func, kind, expr, line, guarded)."""
  try:
    tree = ast.parse(text)
  except SyntaxError:
    return [], []
  sites, memos = [], []
  parents = {}
  for n in ast.walk(tree):
    for c in ast.iter_child_nodes(n):
      parents[c] = n

  def qual(fnode):
    names = [fnode.name]
    p = parents.get(fnode)
    while p is not None:
      if isinstance(p, (ast.FunctionDef, ast.AsyncFunctionDef, ast.ClassDef)):
        names.append(p.name)
      p = parents.get(p)
    return '.'.join(reversed(names))

  # attributes of self that only ever hold sets (every `self.x = ...` in the class assigns a set expression)
  class_setattrs = {}
  for cnode in ast.walk(tree):
    if not isinstance(cnode, ast.ClassDef):
      continue
    good, bad = set(), set()
    for n in ast.walk(cnode):
      if isinstance(n, (ast.Assign, ast.AnnAssign)):
        tgts = n.targets if isinstance(n, ast.Assign) else [n.target]
        for t in tgts:
          if isinstance(t, ast.Attribute) and isinstance(t.value, ast.Name) and t.value.id == 'self':
            if n.value is not None and _is_set_expr(n.value, set()):
              good.add('self.' + t.attr)
            else:
              bad.add('self.' + t.attr)
    class_setattrs[cnode] = good - bad

  def class_of(fnode):
    p = parents.get(fnode)
    while p is not None and not isinstance(p, ast.ClassDef):
      p = parents.get(p)
    return p

  for fnode in ast.walk(tree):
    if not isinstance(fnode, (ast.FunctionDef, ast.AsyncFunctionDef)):
      continue
    q = qual(fnode)
    for d in fnode.decorator_list:
      core = d.func if isinstance(d, ast.Call) else d
      nm = core.attr if isinstance(core, ast.Attribute) else getattr(core, 'id', None)
      if nm in MEMO_DECOS:
        memos.append(dict(file=relpath, func=q, kind='memo:' + nm, expr=ast.unparse(d), line=fnode.lineno))
    own = list(_own_nodes(fnode))
    setvars = set(class_setattrs.get(class_of(fnode), ()))
    for n in own:
      if isinstance(n, ast.Assign) and len(n.targets) == 1 and isinstance(n.targets[0], ast.Name) and _is_set_expr(n.value, setvars):
        setvars.add(n.targets[0].id)
    # a name that is also bound to something that is not a set is not tracked
    for n in own:
      if isinstance(n, ast.Assign) and len(n.targets) == 1 and isinstance(n.targets[0], ast.Name) and n.targets[0].id in setvars and not _is_set_expr(n.value, setvars):
        setvars.discard(n.targets[0].id)

    def add(kind, expr, line):
      sites.append(dict(file=relpath, func=q, kind=kind, expr=ast.unparse(expr), line=line,
                        guarded=_singleton_guarded(fnode, expr)))

    for n in own:
      if isinstance(n, (ast.For, ast.comprehension)) and _is_set_expr(n.iter, setvars):
        if isinstance(n, ast.comprehension):
          par = parents.get(n)
          if isinstance(par, (ast.ListComp, ast.GeneratorExp)):
            # [f(x) for x in s] -- a sequence in set order unless consumed by an order-insensitive function
            gp = parents.get(par)
            ok = isinstance(gp, ast.Call) and isinstance(gp.func, ast.Name) and gp.func.id in (
                'sorted', 'set', 'frozenset', 'any', 'all', 'sum', 'min', 'max', 'len')
            if isinstance(gp, ast.Call) and isinstance(gp.func, ast.Attribute) and gp.func.attr in ('update', 'union', 'difference', 'intersection'):
              ok = True
            if not ok:
              add('listcomp(set)', n.iter, getattr(par, 'lineno', 0))
          continue
        lv = {x.id for x in ast.walk(n.target) if isinstance(x, ast.Name)}
        # names derived from the loop variable inside the body
        for b in n.body:
          for s in ast.walk(b):
            if isinstance(s, ast.Assign) and any(isinstance(x, ast.Name) and x.id in lv for x in ast.walk(s.value)):
              for t in s.targets:
                lv |= {x.id for x in ast.walk(t) if isinstance(x, ast.Name)}
        kinds = set()
        for b in n.body:
          for s in ast.walk(b):
            if isinstance(s, ast.Return) and s.value is not None and any(
                isinstance(x, ast.Name) and x.id in lv for x in ast.walk(s.value)):
              kinds.add('return(x)')
            if isinstance(s, ast.Break):
              kinds.add('break')
            if isinstance(s, (ast.Yield, ast.YieldFrom)):
              kinds.add('yield')
            if isinstance(s, ast.Call) and isinstance(s.func, ast.Attribute) and s.func.attr in ('append', 'extend', 'insert', 'write'):
              kinds.add('append')
        for k in sorted(kinds):
          add(k, n.iter, n.lineno)
      if isinstance(n, ast.Call) and isinstance(n.func, ast.Name) and n.args and _is_set_expr(n.args[0], setvars):
        fn = n.func.id
        if fn in ('next', 'iter'):
          add(fn + '(set)', n.args[0], n.lineno)
        elif fn in ('list', 'tuple', 'enumerate'):
          par = parents.get(n)
          if isinstance(par, ast.Subscript) and par.value is n:
            add('index(list(set))', n.args[0], n.lineno)
          else:
            add(fn + '(set)', n.args[0], n.lineno)
      if isinstance(n, ast.Call) and isinstance(n.func, ast.Name) and n.func.id in ('sorted', 'min', 'max') and n.args and any(
          k.arg == 'key' for k in n.keywords) and _is_set_expr(n.args[0], setvars):
        # a stable sort / first extremum by a key: elements with equal keys keep the set's iteration order
        add('%s-by-key(set)' % n.func.id, n.args[0], n.lineno)
      if isinstance(n, ast.Call) and isinstance(n.func, ast.Attribute) and n.func.attr == 'join' and n.args and _is_set_expr(n.args[0], setvars):
        add('join(set)', n.args[0], n.lineno)
      if isinstance(n, ast.Call) and isinstance(n.func, ast.Attribute) and n.func.attr == 'pop' and not n.args and _is_set_expr(n.func.value, setvars):
        add('set.pop', n.func.value, n.lineno)
  return sites, memos


MUT_CTORS = {'dict', 'list', 'set', 'defaultdict', 'OrderedDict', 'Counter', 'deque', 'WeakValueDictionary', 'WeakKeyDictionary'}
STATEFUL_CTORS = {'count', 'cycle', 'iter', 'Random', 'SystemRandom'}
MUT_METHODS = {'add', 'append', 'extend', 'update', 'setdefault', 'pop', 'popitem', 'clear', 'insert', 'remove', 'discard', 'appendleft'}


def scan_module_state(relpath, text):
  """Module-level (or class-level) mutable containers that some function writes: process-wide state.
  -> list of dict(file, func='<module>' or class, kind='module-state', expr=name, line, writers=[...])."""
  try:
    tree = ast.parse(text)
  except SyntaxError:
    return []

  def is_mut(v):
    if isinstance(v, (ast.Dict, ast.List, ast.Set, ast.DictComp, ast.ListComp, ast.SetComp)):
      return True
    if isinstance(v, ast.Call):
      f = v.func
      nm = f.attr if isinstance(f, ast.Attribute) else getattr(f, 'id', None)
      # iterators / counters / generators are consumed by next(): state just like a container
      return nm in MUT_CTORS or nm in STATEFUL_CTORS
    return isinstance(v, ast.GeneratorExp)
  cands = {}
  scalars = {}
  class_scalars = {}
  for st in tree.body:
    tgt, val = None, None
    if isinstance(st, ast.Assign) and len(st.targets) == 1 and isinstance(st.targets[0], ast.Name):
      tgt, val = st.targets[0].id, st.value
    elif isinstance(st, ast.AnnAssign) and isinstance(st.target, ast.Name) and st.value is not None:
      tgt, val = st.target.id, st.value
    if tgt and is_mut(val):
      cands[tgt] = st.lineno
    elif tgt:
      scalars[tgt] = st.lineno   # a module-level name of any type that a function rebinds through `global` is state, too
    if isinstance(st, ast.ClassDef):
      for cs in st.body:
        if isinstance(cs, ast.Assign) and len(cs.targets) == 1 and isinstance(cs.targets[0], ast.Name) and is_mut(cs.value):
          cands['%s.%s' % (st.name, cs.targets[0].id)] = cs.lineno
        elif isinstance(cs, (ast.Assign, ast.AnnAssign)) and getattr(cs, 'value', None) is not None:
          t = cs.targets[0] if isinstance(cs, ast.Assign) and len(cs.targets) == 1 else getattr(cs, 'target', None)
          if isinstance(t, ast.Name):
            class_scalars['%s.%s' % (st.name, t.id)] = cs.lineno   # rebound through `cls.X = ` / `Class.X += `: state as well
  if not cands and not scalars and not class_scalars:
    return []
  writers = {}
  for fn in ast.walk(tree):
    if not isinstance(fn, (ast.FunctionDef, ast.AsyncFunctionDef)):
      continue
    local = {a.arg for a in fn.args.args + fn.args.kwonlyargs + fn.args.posonlyargs}
    for n in ast.walk(fn):
      if isinstance(n, ast.Assign):
        for t in n.targets:
          if isinstance(t, ast.Name):
            local.add(t.id)
    for n in ast.walk(fn):
      base = None
      if isinstance(n, (ast.Assign, ast.AugAssign, ast.Delete)):
        tgts = n.targets if isinstance(n, (ast.Assign, ast.Delete)) else [n.target]
        for t in tgts:
          if isinstance(t, ast.Subscript):
            base = t.value
      if isinstance(n, ast.Call) and isinstance(n.func, ast.Attribute) and n.func.attr in MUT_METHODS:
        base = n.func.value
      if isinstance(n, ast.Global):
        for g in n.names:
          if g in cands:
            writers.setdefault(g, set()).add(fn.name)
          elif g in scalars and any(isinstance(m, (ast.Assign, ast.AugAssign, ast.AnnAssign)) and any(
              isinstance(t, ast.Name) and t.id == g for t in (m.targets if isinstance(m, ast.Assign) else [m.target]))
                                    for m in ast.walk(fn)):
            cands[g] = scalars[g]
            writers.setdefault(g, set()).add(fn.name)
      if isinstance(n, ast.Call) and isinstance(n.func, ast.Name) and n.func.id == 'next' and n.args:
        base = n.args[0]
      if isinstance(n, (ast.Assign, ast.AugAssign)):
        for t in (n.targets if isinstance(n, ast.Assign) else [n.target]):
          if isinstance(t, ast.Attribute) and isinstance(t.value, ast.Name):
            for c in class_scalars:
              cn, an = c.split('.')
              if t.attr == an and t.value.id in (cn, 'cls'):
                cands[c] = class_scalars[c]
                writers.setdefault(c, set()).add(fn.name)
      if base is None:
        continue
      nm = None
      if isinstance(base, ast.Name) and base.id in cands and base.id not in local:
        nm = base.id
      elif isinstance(base, ast.Attribute):
        dotted = ast.unparse(base)
        for c in cands:
          if '.' in c and (dotted == c or dotted.endswith('.' + c.split('.')[1]) and dotted.split('.')[0] in ('cls', 'self', c.split('.')[0])):
            nm = c
      if nm:
        writers.setdefault(nm, set()).add(fn.name)
  return [dict(file=relpath, func='<module>', kind='module-state', expr=nm, line=cands[nm], writers=sorted(ws))
          for nm, ws in sorted(writers.items())]


def scan_repo(repo):
  sites, memos = [], []
  base = os.path.join(repo, 'pytype')
  for dp, dn, fns in os.walk(base):
    dn.sort()
    rel = os.path.relpath(dp, repo)
    if rel.startswith(os.path.join('pytype', 'tests')) or rel.startswith(os.path.join('pytype', 'rewrite', 'tests')):
      continue
    for f in sorted(fns):
      if not f.endswith('.py') or f.endswith('_test.py') or f.startswith('test_'):
        continue
      p = os.path.join(dp, f)
      try:
        text = open(p, encoding='utf-8').read()
      except OSError:
        continue
      s, m = scan_file(os.path.relpath(p, repo), text)
      sites += s
      memos += m
      memos += scan_module_state(os.path.relpath(p, repo), text)
  return sites, memos


def load_reviewed():
  return json.load(open(os.path.join(HERE, 'c04_order_reviewed.json')))


def _key(s):
  return (s['file'], s['func'], s['kind'], s['expr'])


def obligations(repo):
  sites, memos = scan_repo(repo)
  rev = load_reviewed()
  reviewed = {(r['file'], r['func'], r['kind'], r['expr']): r for r in rev['order']}
  reviewed_memo = {(r['file'], r['func'], r['kind'], r['expr']): r for r in rev.get('memo', [])}
  obls, used = [], []
  counts = {}
  for s in sites:
    k = (s['file'], s['func'])
    counts[k] = counts.get(k, 0) + 1
    ok, how = False, ''
    if s['guarded']:
      ok, how = True, 'singleton guard on the same expression in the function'
    elif _key(s) in reviewed:
      ok, how = True, 'reviewed: ' + reviewed[_key(s)]['why']
      used.append(reviewed[_key(s)])
    o = Obligation('C04/%s::%s/order-independence#%d' % (s['file'], s['func'], counts[k]), 'frame', [], z3.BoolVal(ok), line=s['line'],
                   detail='%s over `%s` must not leak set iteration order%s' % (s['kind'], s['expr'][:120], (' -- ' + how) if ok else ''))
    o.owner = s['func']
    o.prechecked = True
    o.status = 'proved' if ok else 'sat'
    o.backend = 'frame-scan'
    o.model = None if ok else 'order leak `%s` over `%s` at %s:%d (not a guarded singleton, not in the review list)' % (s['kind'], s['expr'][:200], s['file'], s['line'])
    o.undecided_if_no_witness = (s['kind'] not in DIRECT)
    o.site = s
    obls.append(o)
  for m in memos:
    ok = _key(m) in reviewed_memo
    if ok:
      used.append(dict(reviewed_memo[_key(m)], kind='process-wide state'))
    if m['kind'] == 'module-state':
      o = Obligation('C04/%s::%s/no-process-wide-state#1' % (m['file'], m['expr']), 'frame', [], z3.BoolVal(ok), line=m['line'],
                     detail='module/class-level mutable container `%s` is written by %s: state that survives from one analysis to the next in the same process' % (
                         m['expr'], ', '.join(m.get('writers', []))))
    else:
      o = Obligation('C04/%s::%s/no-process-wide-memo#1' % (m['file'], m['func']), 'frame', [], z3.BoolVal(ok), line=m['line'],
                     detail='function is memoised for the life of the process by `%s`: its answers depend on which equal argument was seen first' % m['expr'])
    o.owner = m['func']
    o.prechecked = True
    o.status = 'proved' if ok else 'sat'
    o.backend = 'frame-scan'
    o.model = None if ok else 'new process-wide memo %s on %s::%s' % (m['expr'], m['file'], m['func'])
    o.undecided_if_no_witness = True
    o.site = m
    obls.append(o)
  # vacuity guard: the scan must have looked at the package
  total = Obligation('C04/pytype/frame-scan/sites-found', 'frame', [], z3.BoolVal(len(sites) >= 5), detail='the order-leak scan found %d sites in pytype/ (a scan that finds nothing proves nothing)' % len(sites))
  total.owner = 'frame-scan'
  total.prechecked = True
  total.status = 'proved' if len(sites) >= 5 else 'unknown'
  total.backend = 'frame-scan'
  total.model = None
  total.undecided_if_no_witness = True
  obls.append(total)
  return obls, used


if __name__ == '__main__':
  import sys
  ss, mm = scan_repo(sys.argv[1] if len(sys.argv) > 1 else '/repo')
  for s in ss:
    print(json.dumps(s))
  for m in mm:
    print(json.dumps(m))
