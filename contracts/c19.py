"""C19 — the whole-project build plan orders every analysis after the stubs it reads.

Kernel: pytype_runner.get_imports_map and PytypeRunner.setup_build against a ghost build plan
(declared outputs O, transitively declared dependencies anc[o], content of every .imports file).
The property is the *precondition* of the ghost model of write_build_statement: every entry of the
imports file handed to a build statement is the default stub or a transitively declared dependency
of that statement, and every declared dependency is the output of an earlier statement.
"""
import collections

import z3

from engine import sorts as S
from engine.core import Contract, Loop, Theory
from engine.values import V, Builtin, NONE, PyStr, PyTuple, Obj

RUN_PY = 'pytype/tools/analyze_project/pytype_runner.py'


def build():
  return [build_plan(), build_sorted_modules()]


def build_sorted_modules():
  """Second theory: PytypeRunner.yield_sorted_modules (a generator, verified as the builder of the list it yields) --
  the contract that the first theory assumes for it."""
  T = Theory('C19')
  T.append_frame_trigger = True
  Mod = S.Uninterp('Module')
  STR = S.STR
  SeqM = S.Seq(Mod)
  Group = S.Tup(SeqM, SeqM)
  Item = S.Tup(Mod, STR, SeqM, STR)
  MA = S.Tup(Mod, STR)
  T.sorts.update(Module=Mod)
  act = z3.Function('module_action', Mod.z3(), STR.z3())
  T.opaque[(RUN_PY, 'PytypeRunner.get_module_action')] = lambda ex, bound, node: V(STR, act(ex.coerce(bound['module'], Mod).t))
  B = lambda nm, f: Builtin(nm, f, needs_ex=True)
  T.symbols['action_of'] = B('action_of', lambda ex, a, k, n: V(STR, act(ex.coerce(a[0], Mod).t)))
  T.bind_obj(RUN_PY, 'PytypeRunner', collections.OrderedDict(sorted_sources=S.Seq(Group)))
  T.assumptions += [
      'second theory (yield_sorted_modules): get_module_action(m) is an opaque pure function of the module that returns one of the three actions '
      '(its body -- membership in self.filenames, module.kind -- is not under contract); a generator is verified as the builder of the list of the values it yields',
      'precondition (importlab / deps_from_import_graph, unverified): self.sorted_sources is in dependency order -- every dependency of a group is a module of an EARLIER group',
  ]
  acts = "(%s == 'check' or %s == 'infer' or %s == 'generate default')"
  src = 'self.sorted_sources'
  pre = [
      'all(%s for m in every("Module"))' % (acts % (('action_of(m)',) * 3)),
      # dependency order of the groups
      'all(all(any(any(%s[h][0][q] == d for q in range(len(%s[h][0]))) for h in range(g)) for d in %s[g][1]) for g in range(len(%s)))' % (src, src, src, src),
  ]
  it_ok = lambda r, n: [
      "all((%s[j][1] == 'check' or %s[j][1] == 'infer' or %s[j][1] == 'generate default') and "
      "(%s[j][3] == 'single pass' or %s[j][3] == 'first pass' or %s[j][3] == 'second pass') for j in range(%s))" % (r, r, r, r, r, r, n),
      'all(all(any(%s[i][0] == d for i in range(j)) for d in %s[j][2]) for j in range(%s))' % (r, r, n),
      "all((%s[j][1] == 'generate default') == (action_of(%s[j][0]) == 'generate default') for j in range(%s))" % (r, r, n),
  ]
  seen = lambda r, n, g: 'all(all(any(%s[i][0] == %s[h][0][q] for i in range(%s)) for q in range(len(%s[h][0]))) for h in range(%s))' % (r, src, n, src, g)
  DEPS_SEEN = 'all(any(yielded[i][0] == d for i in range(%s)) for d in deps)'
  T.add(Contract(
      RUN_PY, 'PytypeRunner.yield_sorted_modules', collections.OrderedDict(self=('obj', 'PytypeRunner')),
      requires=pre,
      ensures=it_ok('result', 'len(result)') + [
          # whether a module gets a generated default stub is a property of the module
          "all(all(implies(result[i][0] == result[j][0], (result[i][1] == 'generate default') == (result[j][1] == 'generate default'))"
          " for i in range(len(result))) for j in range(len(result)))"],
      loops={
          0: Loop(it_ok('yielded', 'len(yielded)') + [seen('yielded', 'len(yielded)', 'i')], index='i', seq='S_'),
          1: Loop(['len(modules) == k', 'all(modules[p][0] == group[p] and modules[p][1] == action_of(group[p]) for p in range(k))',
                   'same(yielded, entry(1, yielded))', DEPS_SEEN % 'len(yielded)'], index='k', seq='G_'),
          2: Loop(it_ok('yielded', 'len(yielded)') + [seen('yielded', 'len(entry(2, yielded))', 'i'),
                   'len(yielded) == len(entry(2, yielded)) + p2', 'len(second_pass_deps) == p2',
                   'all(second_pass_deps[p] == modules[p][0] and yielded[len(entry(2, yielded)) + p][0] == modules[p][0] for p in range(p2))',
                   'all(same(yielded[j], entry(2, yielded)[j]) for j in range(len(entry(2, yielded))))',
                   'same(deps, entry(2, deps))', DEPS_SEEN % 'len(entry(2, yielded))'], index='p2', seq='M2_'),
          3: Loop(it_ok('yielded', 'len(yielded)') + [seen('yielded', 'len(yielded)', 'i'),
                   'len(yielded) >= len(entry(3, yielded))',
                   'all(same(yielded[j], entry(3, yielded)[j]) for j in range(len(entry(3, yielded))))',
                   'same(deps, entry(3, deps))', DEPS_SEEN % 'len(entry(3, yielded))'], index='p3', seq='M3_'),
      },
      asserts={'deps += tuple(second_pass_deps)': [DEPS_SEEN % 'len(yielded)']},
      result=S.Seq(Item),
      ghost={'modules': S.Seq(MA), 'second_pass_deps': SeqM, 'deps': SeqM, 'group': SeqM}))
  return T


def build_plan():
  T = Theory('C19')
  T.append_frame_trigger = True
  Mod = S.Uninterp('Module')
  STR = S.STR
  SeqM = S.Seq(Mod)
  SeqS = S.Seq(STR)
  SetS = S.SetOf(STR)
  IMap = S.DictOf(STR, STR)
  MIM = S.DictOf(Mod, IMap)
  MTO = S.DictOf(Mod, STR)
  Anc = S.DictOf(STR, SetS)
  Content = S.DictOf(STR, IMap)
  Item = S.Tup(Mod, STR, SeqM, STR)
  SeqItem = S.Seq(Item)
  T.sorts.update(Module=Mod)
  ZM = Mod.z3()
  f_full = z3.Function('module_full_path', ZM, STR.z3())
  f_name = z3.Function('module_name', ZM, STR.z3())
  f_kind = z3.Function('module_kind', ZM, STR.z3())
  f_out = z3.Function('module_to_output_path', ZM, STR.z3())
  T.attr_models[(Mod.name, 'full_path')] = lambda ex, v: V(STR, f_full(v.t))
  T.attr_models[(Mod.name, 'name')] = lambda ex, v: V(STR, f_name(v.t))
  T.attr_models[(Mod.name, 'kind')] = lambda ex, v: V(STR, f_kind(v.t))
  B = lambda nm, f: Builtin(nm, f, needs_ex=True)
  T.symbols['path_of'] = B('path_of', lambda ex, a, k, n: V(STR, f_out(ex.coerce(a[0], Mod).t)))
  T.opaque[(RUN_PY, '_module_to_output_path')] = lambda ex, bound, node: V(STR, f_out(ex.coerce(bound['mod'], Mod).t))
  T.assumptions += [
      'modules are opaque values compared with == (module_utils.Module is a dataclass: structural equality, A-EQ); '
      'full_path/name/kind are stable reads',
      '_module_to_output_path(m) is an opaque pure function of the module (its string manipulation is not under contract)',
  ]
  # ---- get_imports_map ---------------------------------------------------------------------
  src = ('any(result[k] == module_to_output[m] and k == path_of(m) for m in deps%s) or '
         'any(m in module_to_imports_map and k in module_to_imports_map[m] and module_to_imports_map[m][k] == result[k] for m in deps%s)')
  T.add(Contract(
      RUN_PY, 'get_imports_map', collections.OrderedDict(deps=SeqM, module_to_imports_map=MIM, module_to_output=MTO),
      requires=['all(m in module_to_output for m in deps)'],
      ensures=[
          # every entry is the output recorded for a direct dep, or an entry of a direct dep's own imports map
          'all(implies(k in result, %s) for k in every("Str"))' % (src % ('', '')),
          'all(path_of(m) in result for m in deps)',
      ],
      loops={0: Loop([
          'all(implies(k in imports_map, %s) for k in every("Str"))' % (src % ('[:i]', '[:i]')).replace('result', 'imports_map'),
          'all(path_of(deps[j]) in imports_map for j in range(i))',
      ], index='i')},
      result=IMap, ghost={'imports_map': IMap}))

  # ---- the ghost build plan and the models of the two writers ---------------------------------
  DEFAULT = STR.literal('<imports_dir>/default.pyi')

  def ghost(ex, name):
    return ex.env[name]

  def write_imports(ex, bound, node):
    """Ghost effect: a fresh .imports file whose content is the given map."""
    imap = ex.coerce(bound['imports_map'], IMap)
    f = V(STR, STR.fresh('imports_file'))
    content = ghost(ex, 'plan_content')
    ex.assume(z3.Not(Content.has(content.t, f.t)))   # A-FRESH: a new file name per (module, suffix)
    ex.env['plan_content'] = V(Content, Content.put(content.t, f.t, imap.t))
    return f

  def write_build_statement(ex, bound, node):
    """Ghost effect: one more build statement.  Its PRECONDITION is property C19."""
    deps = ex.coerce(bound['deps'], SeqS)
    imports = ex.coerce(bound['imports'], STR)
    O, anc, content = ghost(ex, 'plan_O'), ghost(ex, 'plan_anc'), ghost(ex, 'plan_content')
    k = z3.FreshConst(z3.IntSort(), 'k')
    x = STR.fresh('x')
    key = STR.fresh('key')
    # (a) every declared dependency is the output of an earlier build statement
    ex.oblige(z3.ForAll([k], z3.Implies(z3.And(0 <= k, k < SeqS.len(deps.t)), z3.Select(O.t, SeqS.at(deps.t, k)))),
              'pre@call', 'C19: every dependency declared for a build step is the declared output of an EARLIER build step')
    in_anc = lambda v: z3.Exists([k], z3.And(0 <= k, k < SeqS.len(deps.t), z3.Or(
        SeqS.at(deps.t, k) == v, z3.Select(Anc.get(anc.t, SeqS.at(deps.t, k)), v))))
    # (b) the imports file was written before, and every entry is the default stub or a transitive declared dependency
    ex.oblige(Content.has(content.t, imports.t), 'pre@call', 'C19: the imports file named in the build statement has been written')
    cm = Content.get(content.t, imports.t)
    ex.oblige(z3.ForAll([key], z3.Implies(IMap.has(cm, key), z3.Or(IMap.get(cm, key) == DEFAULT, in_anc(IMap.get(cm, key))))),
              'pre@call', 'C19: every entry of the step\'s imports map is the default stub or the output of a build step the '
                          'step (transitively) declares as a dependency -- no stub is read before it is produced, under any schedule')
    o = V(STR, STR.fresh('output'))
    ex.assume(o.t != DEFAULT)                       # A-PATH: outputs live under pyi/, the default stub under imports/
    ex.assume(z3.Not(z3.Select(O.t, o.t)))           # A-FRESH: distinct (module, suffix) pairs give distinct output paths
    ex.env['plan_O'] = V(SetS, z3.Store(O.t, o.t, z3.BoolVal(True)))
    newanc = z3.Lambda([x], in_anc(x))
    ex.env['plan_anc'] = V(Anc, Anc.put(anc.t, o.t, newanc))
    return o
  T.opaque[(RUN_PY, 'PytypeRunner.write_imports')] = write_imports
  T.opaque[(RUN_PY, 'PytypeRunner.write_build_statement')] = write_build_statement
  T.opaque[(RUN_PY, 'PytypeRunner.make_imports_dir')] = lambda ex, bound, node: V(S.BOOL, z3.FreshConst(z3.BoolSort(), 'mkdir_ok'))
  T.opaque[(RUN_PY, 'PytypeRunner.write_default_pyi')] = lambda ex, bound, node: V(STR, DEFAULT)
  T.opaque[(RUN_PY, 'PytypeRunner.write_ninja_preamble')] = lambda ex, bound, node: NONE
  T.bind_obj(RUN_PY, 'PytypeRunner', collections.OrderedDict(filenames=SetS))
  T.symbols['DEFAULT'] = V(STR, DEFAULT)
  T.exc_parents['AssertionError'] = 'Exception'
  T.assumptions += [
      'ghost build plan: plan_O = declared outputs, plan_anc[o] = the outputs a statement for o transitively declares as dependencies '
      '(anc[o] = union over declared deps d of {d} + anc[d], fixed when the statement is written: deps are always earlier statements), '
      'plan_content[f] = the map written to imports file f.  write_imports / write_build_statement are replaced by their ghost effect '
      '(A-IO: the text written to build.ninja / *.imports renders exactly these records; sampled by the native parse-back)',
      'A-FRESH: each call of write_imports / write_build_statement names a new file (distinct (module, suffix) pairs give distinct paths); '
      'A-PATH: no output path equals <imports>/default.pyi',
      'A-NINJA: ninja runs a statement only after all statements it (transitively) depends on; a dependency cycle is rejected by ninja',
      'A-GEN: the generator yield_sorted_modules is consumed as if it were an eagerly built list (it reads only self.sorted_sources and '
      'self.filenames, which setup_build does not write)',
  ]
  acts = "(it[1] == 'check' or it[1] == 'infer' or it[1] == 'generate default')"
  stg = "(it[3] == 'single pass' or it[3] == 'first pass' or it[3] == 'second pass')"
  T.add(Contract(
      RUN_PY, 'PytypeRunner.yield_sorted_modules', collections.OrderedDict(self=('obj', 'PytypeRunner')),
      ensures=['all(%s and %s for it in result)' % (acts, stg),
               # every dependency of an item is the module of an earlier item (topological order; a cycle's second
               # pass follows the first pass of every member)
               'all(all(any(result[i][0] == d for i in range(j)) for d in result[j][2]) for j in range(len(result)))',
               # whether a module gets a generated default stub is a property of the module (get_module_action)
               "all(all(implies(result[i][0] == result[j][0], (result[i][1] == 'generate default') == (result[j][1] == 'generate default'))"
               " for i in range(len(result))) for j in range(len(result)))"],
      result=SeqItem, verify=False,
      note='proved in the second theory (build_sorted_modules) under the precondition that sorted_sources is in dependency order (importlab)'))
  k1 = ('all(implies(m in module_to_imports_map, m in module_to_output and module_to_output[m] in plan_O and '
        'all(implies(k in module_to_imports_map[m], module_to_imports_map[m][k] == DEFAULT or '
        'module_to_imports_map[m][k] in plan_anc[module_to_output[m]]) for k in every("Str"))) for m in every("Module"))')
  T.add(Contract(
      RUN_PY, 'PytypeRunner.setup_build', collections.OrderedDict(self=('obj', 'PytypeRunner')),
      ensures=['True'],
      loops={0: Loop([
          k1,
          'all(implies(x in plan_O, x != DEFAULT and x in plan_anc) for x in every("Str"))',
          'all(implies(m in module_to_output, module_to_output[m] == DEFAULT or module_to_output[m] in plan_O) for m in every("Module"))',
          'files >= self.filenames or all(items[j][0] in module_to_output for j in range(i))',
          'default_output == DEFAULT',
          "all(implies(m in module_to_imports_map, any(items[j][0] == m and items[j][1] != 'generate default' for j in range(i))) for m in every(\"Module\"))",
      ], index='i', seq='items',
          ghost_init=['plan_O = set()', 'plan_anc = {}', 'plan_content = {}'],
          havoc=['plan_O', 'plan_anc', 'plan_content'])},
      result=SetS, may_raise=('AssertionError',),
      ghost={'files': SetS, 'module_to_imports_map': MIM, 'module_to_output': MTO, 'plan_O': SetS, 'plan_anc': Anc,
             'plan_content': Content, 'imports_map': IMap, 'default_output': STR}))
  return T


SURROUND = ['deps_from_import_graph / importlab (sorted_sources in dependency order: precondition of yield_sorted_modules), get_module_action (opaque)',
            'write_build_statement / write_imports / write_ninja_preamble text rendering, escape_ninja_path (regex substitution)',
            '_module_to_output_path string manipulation', 'imports_map_loader (reader of the .imports files)', 'ninja itself',
            'main.py / config.py (how inputs and options reach PytypeRunner)']
NATIVE_IN_QUICK = True
MUTANTS = [
    dict(name='ysm_second_pass_without_cycle_deps', file=RUN_PY, old="        deps += tuple(second_pass_deps)\n", new="        pass\n", expect=0),   # fewer deps declared: still in dependency order (the plan theory notices missing deps)
    dict(name='ysm_second_pass_before_first', file=RUN_PY, old="        for module, action in modules:\n          second_pass_deps.append(module)\n", new="        deps += tuple(m for m, _ in modules)\n        for module, action in modules:\n          second_pass_deps.append(module)\n"),
    dict(name='ysm_check_kept_in_first_pass', file=RUN_PY, old="          if action == Action.CHECK:\n            action = Action.INFER\n", new="", expect=0),
    dict(name='ysm_generate_default_twice', file=RUN_PY, old="          if action != Action.GENERATE_DEFAULT:\n            yield module, action, deps, Stage.SECOND_PASS\n", new="          yield module, action, deps, Stage.SECOND_PASS\n", expect=0),

    dict(name='deps_only_first', file=RUN_PY, old="      deps = tuple(module_to_output[m] for m in deps\n                   if module_to_output[m] != default_output)\n",
         new="      deps = tuple(module_to_output[m] for m in deps[:1]\n                   if module_to_output[m] != default_output)\n"),
    dict(name='imports_map_of_all_modules', file=RUN_PY, old="  for m in deps:\n    if m in module_to_imports_map:\n      imports_map.update(module_to_imports_map[m])\n",
         new="  for m in module_to_imports_map:\n    imports_map.update(module_to_imports_map[m])\n  for m in deps:\n"),
    dict(name='first_pass_output_not_recorded', file=RUN_PY, old="      elif stage == Stage.FIRST_PASS:\n        suffix = FIRST_PASS_SUFFIX\n",
         new="      elif stage == Stage.FIRST_PASS:\n        suffix = FIRST_PASS_SUFFIX\n        module_to_output[module] = default_output\n        continue\n"),
    dict(name='skip_stale_map_ok', file=RUN_PY, expect=0, old="      if m in module_to_imports_map:\n      imports_map.update", new="      if m in module_to_imports_map:\n      imports_map.update"),
]


def extra_obligations(repo):
  from engine import frames
  return frames.equality_frames('C19', repo, [('pytype/module_utils.py', 'Module', 'dataclass')])
