"""Shared helpers for native (real-code) runs: scratch-built C++ extension + loader."""
import glob
import hashlib
import importlib.util
import os
import subprocess
import sys

VERIF = os.path.dirname(os.path.dirname(os.path.abspath(__file__)))
PYINC = '/root/.pyenv/versions/3.12.1/include/python3.12'
PB11 = '/venv/lib/python3.12/site-packages/pybind11/include'
SRCS = ['cfg', 'cfg_logging', 'pylogging', 'reachable', 'solver', 'typegraph']


def ext_hash(repo):
  h = hashlib.sha256()
  d = os.path.join(repo, 'pytype', 'typegraph')
  for f in sorted(glob.glob(os.path.join(d, '*.cc')) + glob.glob(os.path.join(d, '*.h'))):
    h.update(os.path.basename(f).encode())
    h.update(open(f, 'rb').read())
  return h.hexdigest()[:16]


def ensure_ext(repo):
  """Builds pytype.typegraph.cfg from repo's sources into /verif/build/<hash>/ (cached)."""
  d = os.path.join(VERIF, 'build', ext_hash(repo))
  so = os.path.join(d, 'cfg.so')
  if os.path.exists(so):
    return so
  os.makedirs(d, exist_ok=True)
  tg = os.path.join(repo, 'pytype', 'typegraph')
  tmp = so + '.tmp%d' % os.getpid()
  cmd = ['g++', '-O1', '-std=c++17', '-shared', '-fPIC', '-I' + PYINC, '-I' + PB11, '-I' + tg] + [
      os.path.join(tg, s + '.cc') for s in SRCS] + ['-o', tmp]
  p = subprocess.run(cmd, capture_output=True, text=True)
  if p.returncode != 0:
    raise RuntimeError('extension build failed:\n' + p.stderr[-3000:])
  os.rename(tmp, so)
  return so


def load_cfg(repo):
  so = ensure_ext(repo)
  if repo not in sys.path:
    sys.path.insert(0, repo)
  import pytype.typegraph as tg  # pylint: disable=g-import-not-at-top
  spec = importlib.util.spec_from_file_location('pytype.typegraph.cfg', so)
  m = importlib.util.module_from_spec(spec)
  spec.loader.exec_module(m)
  sys.modules['pytype.typegraph.cfg'] = m
  tg.cfg = m
  return m
