"""Native small-scope sweep for C17 on the real booleq module (bounded stand-in / witness search)."""
import itertools
import json
import os
import sys

sys.path.insert(0, os.path.dirname(os.path.abspath(__file__)))
import common  # pylint: disable=g-import-not-at-top


def main():
  mode, repo = sys.argv[1], sys.argv[2]
  payload = json.loads(sys.stdin.read() or '{}')
  tier = payload.get('tier', 'quick')
  common.load_cfg(repo)
  from pytype.pytd import booleq  # pylint: disable=g-import-not-at-top

  VARS = ['x', 'y']
  VALUES = ['1', '2']
  violations = []

  class R:
    """repr that survives cyclic terms."""

    def __init__(self, x):
      self.x = x

    def __repr__(self):
      try:
        return repr(self.x)
      except RecursionError:
        return '<cyclic term>'

  def viol(kind, what, **kw):
    if len(violations) < 20:
      violations.append(dict(kind=kind, what=what, **kw))

  def val(s, sig):
    return sig.get(s, s)

  # specification terms (independent of the code under test)
  def spec_eval(t, sig):
    if t[0] == 'T':
      return True
    if t[0] == 'F':
      return False
    if t[0] == 'eq':
      return val(t[1], sig) == val(t[2], sig)
    if t[0] == 'and':
      return all(spec_eval(c, sig) for c in t[1])
    if t[0] == 'or':
      return any(spec_eval(c, sig) for c in t[1])
    raise TypeError(t)

  def real_eval(t, sig, depth=0):
    return _re(t, sig, depth)

  def safe(t, sig):
    try:
      return _re(t, sig, 0)
    except RecursionError:
      return None

  def _re(t, sig, depth=0):
    if depth > 50:
      raise RecursionError
    if t is booleq.TRUE:
      return True
    if t is booleq.FALSE:
      return False
    if isinstance(t, booleq._Eq):
      return val(t.left, sig) == val(t.right, sig)
    if isinstance(t, booleq._And):
      return all(_re(c, sig, depth + 1) for c in t.exprs)
    if isinstance(t, booleq._Or):
      return any(_re(c, sig, depth + 1) for c in t.exprs)
    raise TypeError(t)

  def flat_ok(t):
    if isinstance(t, (booleq._And, booleq._Or)):
      if len(t.exprs) < 2:
        return False
      for c in t.exprs:
        if c is booleq.TRUE or c is booleq.FALSE or type(c) is type(t) or not flat_ok(c):
          return False
    return True

  pool = {}   # spec term -> real term object (shared: sub-terms are reused)

  def build(t):
    if t in pool:
      return pool[t]
    if t[0] == 'T':
      r = booleq.TRUE
    elif t[0] == 'F':
      r = booleq.FALSE
    elif t[0] == 'eq':
      r = booleq.Eq(t[1], t[2])
    elif t[0] == 'and':
      r = booleq.And([build(c) for c in t[1]])
    else:
      r = booleq.Or([build(c) for c in t[1]])
    pool[t] = r
    return r

  atoms = [('T',), ('F',)]
  for l in VARS:
    for r in VALUES + VARS:
      atoms.append(('eq', l, r))
  for l in VALUES:
    for r in VARS:
      atoms.append(('eq', l, r))
  d1 = list(atoms)
  for a, b in itertools.product(atoms, repeat=2):
    d1.append(('and', (a, b)))
    d1.append(('or', (a, b)))
  d2 = list(d1)
  d1c = [t for t in d1 if t[0] in ('and', 'or')]
  step = 1 if tier == 'thorough' else 7
  comb = list(itertools.product(d1c, atoms + d1c[::5]))
  for a, b in comb[::step]:
    d2.append(('and', (a, b)))
    d2.append(('or', (a, b)))
    d2.append(('and', (b, a)))
  sigs = [dict(zip(VARS, vs)) for vs in itertools.product(VALUES, repeat=len(VARS))]
  tables = []
  opts = [frozenset(s) for s in (['1'], ['2'], ['1', '2'])]
  for tx, ty in itertools.product(opts, repeat=2):
    tables.append({'x': set(tx), 'y': set(ty)})
  checked = 0
  for t in d2:
    r = build(t)
    checked += 1
    try:
      fo = flat_ok(r)
    except RecursionError:
      viol('constructor-aliasing', 'term built for %r contains itself (a shared sub-term was mutated)' % (t,), spec=repr(t))
      break
    if not fo:
      viol('constructor-normal-form', 'term built for %r is not flattened/absorbed: %r' % (t, R(r)), spec=repr(t))
    for sig in sigs:
      try:
        rv = real_eval(r, sig)
      except RecursionError:
        rv = None
      if rv != spec_eval(t, sig):
        viol('constructor', 'spec %r was built as %r; they differ under %s' % (t, R(r), sig), spec=repr(t))
        break
  # re-check every pooled object after all construction (detects mutation of shared sub-terms)
  for t, r in pool.items():
    for sig in sigs:
      if safe(r, sig) != spec_eval(t, sig):
        viol('constructor-aliasing', 'term built for %r now reads %r (a shared sub-term was mutated); differs under %s' % (t, R(r), sig), spec=repr(t))
        break
  pool_2vars = list(pool.items())     # the terms over x, y only: the restriction tables below cover exactly these variables
  # deeper terms, built to provoke an equality that is coarser than the structure: siblings with the SAME leaves but a
  # different nesting / connective (a set-based constructor silently drops one of two children that compare equal)
  import random  # pylint: disable=g-import-not-at-top
  rnd = random.Random(payload.get('seed', 0))
  V3 = ['x', 'y', 'z']
  leaves3 = [('eq', v, c) for v in V3 for c in VALUES]
  sigs3 = [dict(zip(V3, vs)) for vs in itertools.product(VALUES, repeat=3)]

  def nest(ls, top):
    """a random nesting of the leaf list `ls` under connective `top` ('and'/'or'), alternating connectives"""
    ls = list(ls)
    rnd.shuffle(ls)
    if len(ls) <= 2 or rnd.random() < 0.3:
      return (top, tuple(ls))
    k = rnd.randrange(1, len(ls))
    other = 'or' if top == 'and' else 'and'
    left = nest(ls[:k], other) if k > 1 else ls[0]
    right = nest(ls[k:], other) if len(ls) - k > 1 else ls[k]
    return (top, (left, right))
  ndeep = 1500 if tier == 'quick' else 20000
  deep_checked = 0
  for _ in range(ndeep):
    ls = rnd.sample(leaves3, rnd.choice([3, 3, 4]))
    inner = rnd.choice(['and', 'or'])
    a, b = nest(ls, inner), nest(ls, inner)
    outer = rnd.choice(['and', 'or'])
    t = (outer, (a, b)) if rnd.random() < 0.8 else (outer, (a, nest(ls, 'or' if inner == 'and' else 'and')))
    try:
      r = build(t)
    except RecursionError:
      continue
    deep_checked += 1
    for sig in sigs3:
      if safe(r, sig) != spec_eval(t, sig):
        viol('constructor', 'spec %r was built as %r; they differ under %s' % (t, R(r), sig), spec=repr(t))
        break
    if len(violations) >= 20:
      break
  simp = 0
  for t, r in pool_2vars:
    for tab in tables:
      try:
        s = r.simplify(tab)
      except Exception as e:  # pylint: disable=broad-except
        viol('simplify-raises', '%r.simplify(%r) raised %r' % (R(r), tab, e), spec=repr(t))
        continue
      simp += 1
      for sig in sigs:
        if not all(sig[v] in tab[v] for v in VARS):
          continue
        if safe(s, sig) != spec_eval(t, sig):
          viol('simplify', '%r.simplify(%r) = %r differs from the term under %s' % (R(r), tab, R(s), sig), spec=repr(t))
          break
  print(json.dumps(dict(
      violations=violations,
      bounded=[dict(function='booleq.Eq/And/Or', bound='%d spec terms of depth<=3 over 2 variables x 2 values incl. var==var, sub-term objects shared, all 4 valuations; plus %d random terms of depth<=5 over 3 variables whose sibling sub-terms have the same leaves in different nestings' % (len(d2), deep_checked), cases=checked + deep_checked),
               dict(function='BooleanTerm.simplify', bound='every pooled term x 9 restriction tables x consistent valuations', cases=simp)],
      spec_validation=[dict(spec='bsem/val (z3 axioms) vs independent native evaluation over spec tuples')],
      counts=dict(terms=len(d2), simplify_calls=simp))))


if __name__ == '__main__':
  main()
