"""Native sweep for C10: mro.MROMerge / Dedup vs CPython's type(), and class statements through the VM."""
import itertools
import json
import os
import random
import sys

sys.path.insert(0, os.path.dirname(os.path.abspath(__file__)))
import common  # pylint: disable=g-import-not-at-top


def main():
  mode, repo = sys.argv[1], sys.argv[2]
  payload = json.loads(sys.stdin.read() or '{}')
  tier = payload.get('tier', 'quick')
  rnd = random.Random(payload.get('seed', 0))
  common.load_cfg(repo)
  from pytype.pytd import mro  # pylint: disable=g-import-not-at-top
  violations = []

  def viol(kind, what, **kw):
    if len(violations) < 20:
      violations.append(dict(kind=kind, what=what, **kw))

  # -- A. exhaustive hierarchies, MROMerge vs type() ------------------------
  maxc = 6 if tier == 'thorough' else 5
  checked = [0]

  def pytype_mro(cls_name, bases, mros):
    rows = [[cls_name]] + [list(mros[b]) for b in bases] + [list(bases)]
    try:
      return list(mro.MROMerge(rows))
    except mro.MROError:
      return None

  def rec(classes, mros, depth):
    if depth == maxc:
      return
    name = 'C%d' % depth
    avail = list(classes)
    for nb in range(0, min(3, len(avail)) + 1):
      for bases in itertools.permutations(avail, nb):
        real_bases = tuple(classes[b] for b in bases)
        try:
          k = type(name, real_bases, {})
          want = [c.__name__ for c in k.__mro__ if c is not object]
        except TypeError:
          k, want = None, None
        got = pytype_mro(name, bases, mros)
        checked[0] += 1
        if got != want:
          viol('MROMerge', 'class %s(%s): CPython %s, MROMerge %s' % (name, ', '.join(bases), want, got),
               hierarchy={c: [b.__name__ for b in classes[c].__bases__ if b is not object] for c in classes},
               cls=name, bases=list(bases))
        if k is not None:
          classes2 = dict(classes)
          classes2[name] = k
          mros2 = dict(mros)
          mros2[name] = want
          rec(classes2, mros2, depth + 1)
  rec({}, {}, 0)
  # Dedup
  for n in range(0, 5):
    for seq in itertools.product('abc', repeat=n):
      got = mro.Dedup(list(seq))
      if got != list(dict.fromkeys(seq)):
        viol('Dedup', 'Dedup(%r) = %r' % (list(seq), got))

  # -- B. class statements through the real VM -------------------------------
  vm_checks = 0
  from pytype import config, io  # pylint: disable=g-import-not-at-top
  opts = config.Options.create(python_version=(3, 12))
  LITS = [('1', 'int'), ("'a'", 'str'), ('1.5', 'float'), ("b'b'", 'bytes'), ('2j', 'complex'), ('[]', 'list'), ('{}', 'dict')]
  nprog = 40 if tier == 'quick' else 400
  for pi in range(nprog):
    n = rnd.randint(3, 7)
    classes, lines, expect_err, expect_type = {}, [], {}, {}
    for i in range(n):
      name = 'K%d' % i
      # a class statement may rebind an existing name: the old class stays reachable through its subclasses, so two
      # different classes with the same name meet in one hierarchy
      rebind = rnd.choice(list(classes)) if len(classes) >= 2 and rnd.random() < 0.3 else None
      avail = list(classes)
      nb = rnd.randint(0, min(3, len(avail)))
      if avail and rnd.random() < 0.15:
        bases = [rnd.choice(avail)] * 2 + ([rnd.choice(avail)] if rnd.random() < 0.5 else [])
      else:
        bases = rnd.sample(avail, nb)
      has_x = rnd.random() < 0.6 or not bases
      lit, tname = LITS[i % len(LITS)]
      body = {'x': eval(lit)} if has_x else {}   # pylint: disable=eval-used
      lineno = len(lines) + 1
      if rebind:
        try:
          type(rebind, tuple(classes[b] for b in bases), body)
          name = rebind
        except TypeError:
          pass   # a refused statement keeps its fresh name: the old binding would stay in force under CPython
      lines.append('class %s(%s):' % (name, ', '.join(bases)) if bases else 'class %s:' % name)
      lines.append('  x = %s' % lit if has_x else '  pass')
      try:
        k = type(name, tuple(classes[b] for b in bases), body)
        classes[name] = k
        if hasattr(k, 'x'):
          expect_type[name] = type(k.x).__name__
      except TypeError:
        expect_err[name] = lineno
        # CPython stops here; the remaining program does not use this class
    for name in classes:
      if name in expect_type:
        lines.append('r_%s = %s.x' % (name, name))
        lines.append('i_%s = %s().x' % (name, name))
    src = '\n'.join(lines) + '\n'
    try:
      analysis = io.generate_pyi_ast(src, opts)
      ast_ = analysis.ast
    except Exception as e:  # pylint: disable=broad-except
      viol('vm-crash', 'analysis of generated hierarchy raised %r' % (e,), program=src)
      continue
    errs = {(e.name, e.line) for e in analysis.context.errorlog.unique_sorted_errors()}
    mro_err_lines = {l for (nm, l) in errs if nm == 'mro-error'}
    vm_checks += 1
    if mro_err_lines != set(expect_err.values()):
      viol('mro-error', 'mro-error lines %s but CPython refuses the class statements at lines %s' % (
          sorted(mro_err_lines), sorted(expect_err.values())), program=src)
      continue
    consts = {c.name: c.type for c in ast_.constants}
    from pytype.pytd import pytd_utils  # pylint: disable=g-import-not-at-top
    for name, tname in expect_type.items():
      for pre in ('r_', 'i_'):
        t = consts.get(pre + name)
        got = pytd_utils.Print(t) if t is not None else None
        vm_checks += 1
        if got is None or got.split('[')[0].replace('builtins.', '') != tname:
          viol('attribute-order', '%s%s has type %s in the stub but CPython finds a %s first' % (pre, name, got, tname),
               program=src)
  print(json.dumps(dict(
      violations=violations,
      bounded=[dict(function='mro.MROMerge / MergeSequences / Dedup',
                    bound='every hierarchy of <=%d classes with <=3 distinct bases each, vs type().__mro__ / TypeError' % maxc,
                    cases=checked[0]),
               dict(function='Class.compute_mro + attribute lookup through the VM',
                    bound='%d random programs of 3-7 class statements (incl. duplicate and inconsistent bases, class names rebound while subclasses keep the old class)' % nprog,
                    cases=vm_checks)],
      spec_validation=[dict(spec='StepP chain (z3) is CPython pmerge: MROMerge is proved equal to the chain, and compared here with type()')],
      counts=dict(hierarchies=checked[0], vm_checks=vm_checks))))


if __name__ == '__main__':
  main()
