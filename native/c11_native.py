"""Native sweep for C11 (bounded stand-in for the optimiser passes that are not under contract).

Generated pytd declarations over a small class hierarchy are parsed and resolved with pytype's real
stub parser / loader, run through optimize.Optimize() with pytype's lossless settings (and, in
thorough mode, other option settings), and compared against a finite value model:
  * every value admitted by a constant / parameter / return type before is admitted after;
  * optimising the optimised stub again changes nothing.
JoinTypes itself is additionally compared with its (proved) contract on generated type lists.
"""
import itertools
import json
import os
import random
import sys
import textwrap

sys.path.insert(0, os.path.dirname(os.path.abspath(__file__)))
import common  # pylint: disable=g-import-not-at-top

PYVER = (3, 12)
CLASSES = ['int', 'str', 'bool', 'float', 'NoneType']
SUPER = {'bool': ['bool', 'int', 'object'], 'int': ['int', 'object'], 'str': ['str', 'object'], 'float': ['float', 'object'],
         'NoneType': ['NoneType', 'object'], 'tuple': ['tuple', 'object'], 'list': ['list', 'object'], 'function': ['function', 'object']}


def universe():
  """Values: ('inst', cls) | ('tuple', (v...)) | ('list', frozenset of element values) | ('fn', nargs, ret value)."""
  atoms = [('inst', c) for c in CLASSES]
  vals = list(atoms)
  for n in range(0, 3):
    for items in itertools.product(atoms[:3] + [atoms[4]], repeat=n):
      vals.append(('tuple', tuple(items)))
  vals.append(('tuple', (('inst', 'int'), ('inst', 'int'), ('inst', 'int'))))
  for n in range(0, 3):
    for items in itertools.combinations(atoms[:3], n):
      vals.append(('list', frozenset(items)))
  vals.append(('list', frozenset([('tuple', (('inst', 'int'),))])))
  vals.append(('list', frozenset([('tuple', ())])))
  for nargs in (0, 1, 2):
    for r in atoms[:2]:
      vals.append(('fn', nargs, r))
  return vals


def short(name):
  return name.rsplit('.', 1)[-1]


def make_admits(pytd):
  def cls_of(v):
    return {'inst': None, 'tuple': 'tuple', 'list': 'list', 'fn': 'function'}[v[0]] or v[1]

  def admits(t, v):
    if isinstance(t, pytd.AnythingType):
      return True
    if isinstance(t, pytd.NothingType):
      return False
    if isinstance(t, pytd.UnionType):
      return any(admits(u, v) for u in t.type_list)
    if isinstance(t, pytd.TupleType):
      return v[0] == 'tuple' and len(v[1]) == len(t.parameters) and all(admits(p, i) for p, i in zip(t.parameters, v[1]))
    if isinstance(t, pytd.CallableType):
      return v[0] == 'fn' and v[1] == len(t.args) and admits(t.ret, v[2])
    if isinstance(t, pytd.GenericType):
      base = short(t.name)
      if base in ('tuple', 'Tuple'):
        return v[0] == 'tuple' and all(admits(t.parameters[0], i) for i in v[1])
      if base in ('list', 'List', 'Sequence', 'Iterable', 'Collection', 'MutableSequence'):
        ok = v[0] == 'list' or (base in ('Sequence', 'Iterable', 'Collection') and v[0] == 'tuple')
        return ok and all(admits(t.parameters[0], i) for i in (v[1] if v[0] == 'list' else v[1]))
      if base == 'Callable':
        return v[0] == 'fn' and admits(t.parameters[-1], v[2])
      return None   # unknown container: no verdict
    if isinstance(t, (pytd.NamedType, pytd.ClassType, pytd.LateType)):
      n = short(t.name)
      if n == 'object':
        return True
      if n in ('Tuple',):
        n = 'tuple'
      if n in ('List',):
        n = 'list'
      if n == 'Callable':
        return v[0] == 'fn'
      if n in ('Sequence', 'Iterable', 'Collection', 'Sized', 'Container', 'Reversible', 'Hashable'):
        return None
      return n in SUPER.get(cls_of(v), [cls_of(v), 'object'])
    return None
  return admits


ATOMS = ['int', 'str', 'bool', 'float', 'None', 'object', 'Any']


def gen_types(rnd, depth):
  """A random type expression (stub syntax)."""
  r = rnd.random()
  if depth <= 0 or r < 0.35:
    return rnd.choice(ATOMS)
  if r < 0.50:
    return 'List[%s]' % gen_types(rnd, depth - 1)
  if r < 0.58:
    return 'Tuple[%s, ...]' % gen_types(rnd, depth - 1)
  if r < 0.78:
    n = rnd.choice([0, 1, 1, 2, 2, 3])
    if n == 0:
      return 'Tuple[()]'
    return 'Tuple[%s]' % ', '.join(gen_types(rnd, depth - 1) for _ in range(n))
  if r < 0.84:
    n = rnd.choice([0, 1, 2])
    return 'Callable[[%s], %s]' % (', '.join(gen_types(rnd, 0) for _ in range(n)), gen_types(rnd, depth - 1))
  n = rnd.choice([2, 2, 3, 4])
  return 'Union[%s]' % ', '.join(gen_types(rnd, depth - 1) for _ in range(n))


def systematic_unions():
  """Unions of fixed-length tuples of mixed arity and of containers, in every order."""
  shapes = ['Tuple[()]', 'Tuple[int]', 'Tuple[str]', 'Tuple[int, str]', 'Tuple[int, ...]', 'List[int]', 'List[str]',
            'Callable[[], int]', 'Callable[[int], str]', 'Callable[..., int]', 'int', 'None', 'Any']
  out = []
  for n in (2, 3):
    for combo in itertools.permutations(shapes, n):
      out.append('Union[%s]' % ', '.join(combo))
  return out


HISTORY_STUBS = []
for _b, _n in (('str', 'Token'), ('bytes', 'Blob'), ('ValueError', 'ParseError'), ('int', 'Count'), ('list', 'Items'), ('dict', 'Table')):
  HISTORY_STUBS.append('from typing import Union\nclass %s(%s): ...\nc: Union[%s, %s]\ndef f(x: Union[%s, %s]) -> Union[%s, %s]: ...\n' % (_n, _b, _b, _n, _n, _b, _b, _n))
  HISTORY_STUBS.append('from typing import Union\nclass %s: ...\nc: Union[%s, %s]\ndef f(x: Union[%s, %s]) -> Union[%s, %s]: ...\n' % (_n, _b, _n, _n, _b, _b, _n))
  HISTORY_STUBS.append('from typing import Union\nclass Base%s: ...\nclass %s(Base%s): ...\nc: Union[Base%s, %s, %s]\n' % (_n, _n, _n, _n, _n, _b))


def history_run(repo, order):
  """Optimise the history stubs one after the other in THIS process; -> printed result per stub index."""
  common.load_cfg(repo)
  from pytype import config, load_pytd  # pylint: disable=g-import-not-at-top
  from pytype.pyi import parser  # pylint: disable=g-import-not-at-top
  from pytype.pytd import optimize, pytd_utils, visitors  # pylint: disable=g-import-not-at-top
  loader = load_pytd.Loader(config.Options.create(python_version=PYVER))
  deps = pytd_utils.Concat(loader.builtins, loader.typing)
  out = {}
  for k in order:
    src = HISTORY_STUBS[k]
    # resolved the way pytype.io resolves an inferred stub: module-qualified local names, builtins looked up
    ast = parser.parse_string(src, name='m', options=parser.PyiOptions(python_version=PYVER))
    ast = ast.Visit(visitors.LookupBuiltins(loader.builtins))
    ast = ast.Visit(visitors.LookupLocalTypes())
    opt = optimize.Optimize(ast, deps, lossy=False, use_abcs=False, max_union=7, remove_mutable=False)
    out[str(k)] = pytd_utils.Print(opt)
  return out


def main():
  mode, repo = sys.argv[1], sys.argv[2]
  payload = json.loads(sys.stdin.read() or '{}')
  if mode == 'history':
    print(json.dumps(history_run(repo, payload['order'])))
    return
  tier = payload.get('tier', 'quick')
  rnd = random.Random(payload.get('seed', 0))
  common.load_cfg(repo)
  from pytype import config, load_pytd  # pylint: disable=g-import-not-at-top
  from pytype.pyi import parser  # pylint: disable=g-import-not-at-top
  from pytype.pytd import optimize, pytd, pytd_utils, visitors  # pylint: disable=g-import-not-at-top
  loader = load_pytd.Loader(config.Options.create(python_version=PYVER))
  builtins = loader.builtins
  admits = make_admits(pytd)
  U = universe()
  violations = []

  def viol(**kw):
    if kw.get('cause') == 'signatures-coincide-only-after-a-later-pass':
      # the known finding: report one representative (the fixed regression input comes first)
      if any(v.get('cause') == kw['cause'] for v in violations):
        return
    if len(violations) < 10:
      violations.append(kw)

  def parse_and_resolve(src):
    ast = parser.parse_string(textwrap.dedent(src), options=parser.PyiOptions(python_version=PYVER))
    ast = ast.Visit(visitors.LookupExternalTypes({'builtins': loader.builtins, 'typing': loader.typing}))
    ast = ast.Visit(visitors.NamedTypeToClassType())
    ast = ast.Visit(visitors.AdjustTypeParameters())
    ast.Visit(visitors.FillInLocalPointers({'': ast, 'builtins': loader.builtins}))
    return ast

  SETTINGS = [dict(lossy=False, use_abcs=False, max_union=7, remove_mutable=False)]
  if tier != 'quick':
    SETTINGS += [dict(lossy=False, use_abcs=False, max_union=4, remove_mutable=False),
                 dict(lossy=False, use_abcs=False, max_union=7, remove_mutable=True)]

  def widened(before, after, what, src, setting):
    for v in U:
      a = admits(before, v)
      if a is True:
        b = admits(after, v)
        if b is False:
          viol(kind='narrowed', what='%s: %s -> %s no longer admits %r' % (what, pytd_utils.Print(before), pytd_utils.Print(after), v),
               src=src, setting=setting)
          return False
    return True

  ncase = 0

  def check_stub(src):
    nonlocal ncase
    try:
      ast = parse_and_resolve(src)
    except Exception:  # pylint: disable=broad-except
      return   # not a valid stub: outside the domain
    for st in SETTINGS:
      ncase += 1
      try:
        opt = optimize.Optimize(ast, builtins, **st)
      except Exception as e:  # pylint: disable=broad-except
        viol(kind='crash', what='Optimize raised %s: %s' % (type(e).__name__, e), src=src, setting=st)
        continue
      for c in ast.constants:
        try:
          oc = opt.Lookup(c.name)
        except KeyError:
          viol(kind='dropped', what='constant %s disappeared' % c.name, src=src, setting=st)
          continue
        widened(c.type, oc.type, 'constant %s' % c.name, src, st)
      for f in ast.functions:
        try:
          of = opt.Lookup(f.name)
        except KeyError:
          viol(kind='dropped', what='function %s disappeared' % f.name, src=src, setting=st)
          continue
        for sig in f.signatures:
          # some optimised signature must admit everything this signature admits
          ok = False
          for osig in of.signatures:
            if len(osig.params) != len(sig.params):
              continue
            good = True
            for p, q in zip(sig.params, osig.params):
              for v in U:
                if admits(p.type, v) is True and admits(q.type, v) is False:
                  good = False
                  break
              if not good:
                break
            for star in ('starargs', 'starstarargs'):
              a_, b_ = getattr(sig, star), getattr(osig, star)
              if (a_ is None) != (b_ is None):
                good = False
              elif a_ is not None:
                for v in U:
                  if admits(a_.type, v) is True and admits(b_.type, v) is False:
                    good = False
                    break
            if good:
              for v in U:
                if admits(sig.return_type, v) is True and admits(osig.return_type, v) is False:
                  good = False
                  break
            if good:
              ok = True
              break
          if not ok:
            viol(kind='narrowed', what='function %s: no optimised signature admits everything that `%s` admits; optimised: %s' % (
                f.name, pytd_utils.Print(sig), ' | '.join(pytd_utils.Print(s) for s in of.signatures)), src=src, setting=st)
      try:
        again = optimize.Optimize(opt, builtins, **st)
        if pytd_utils.Print(again) != pytd_utils.Print(opt):
          # classify: does the once-optimised stub still contain two signatures of one function that
          # differ only in return type / exceptions (they became equal through a LATER pass of the
          # first run, after CombineReturnsAndExceptions had already run)?
          cause = 'other'
          fns = list(opt.functions) + [m for c_ in opt.classes for m in c_.methods]
          for f_ in fns:
            stripped = [s_.Replace(return_type=None, exceptions=None) for s_ in f_.signatures]
            if len(set(stripped)) != len(stripped):
              cause = 'signatures-coincide-only-after-a-later-pass'
          viol(kind='not-idempotent', cause=cause,
               what='optimising twice differs:\n%s\n--- vs ---\n%s' % (pytd_utils.Print(opt), pytd_utils.Print(again)),
               src=src, setting=st)
      except Exception as e:  # pylint: disable=broad-except
        viol(kind='crash', what='second Optimize raised %s: %s' % (type(e).__name__, e), src=src, setting=st)

  def check_local_classes(src, name, must_mention, cause):
    """Stubs with local classes (outside the value universe): the optimised type of `name` must still mention every
    class of `must_mention` (classes unrelated to the other members of the union)."""
    nonlocal ncase
    try:
      ast = parse_and_resolve(src)
    except Exception:  # pylint: disable=broad-except
      return
    for st in SETTINGS:
      ncase += 1
      opt = optimize.Optimize(ast, builtins, **st)
      before = pytd_utils.Print(ast.Lookup(name).type)
      after = pytd_utils.Print(opt.Lookup(name).type)
      for cls in must_mention:
        if cls in before and cls not in after.replace('Outer.' + cls, ''):
          viol(kind='narrowed', cause=cause, what='constant %s: %s -> %s no longer admits instances of the unrelated class %s' % (name, before, after, cls),
               src=src, setting=st)

  # F14 (known finding): a nested class that shares its bare name with an unrelated top-level class
  check_local_classes('from typing import Union\nclass A: ...\nclass Inner: ...\nclass Outer:\n  class Inner(A): ...\nc: Union[Inner, A]\n',
                      'c', ['Inner'], 'F14-nested-class-shares-bare-name')
  # controls without the name clash (must hold): unrelated classes stay, a genuine subclass may be absorbed
  check_local_classes('from typing import Union\nclass A: ...\nclass Inner: ...\nclass Outer:\n  class Nested(A): ...\nc: Union[Inner, A]\n',
                      'c', ['Inner'], 'other')
  check_local_classes('from typing import Union\nclass A: ...\nclass B: ...\nclass C(A): ...\nc: Union[B, C, A]\n', 'c', ['B'], 'other')

  # the result of optimising a stub must not depend on which stubs were optimised earlier in the process:
  # the same stubs in forward order (one fresh process) and in reverse order (another one)
  import subprocess  # pylint: disable=g-import-not-at-top
  runs = []
  for order in (list(range(len(HISTORY_STUBS))), list(reversed(range(len(HISTORY_STUBS))))):
    p = subprocess.run(['/venv/bin/python', '-B', os.path.abspath(__file__), 'history', repo], input=json.dumps(dict(order=order)),
                       capture_output=True, text=True, env=dict(os.environ, PYTHONPATH=repo, PYTHONDONTWRITEBYTECODE='1'), cwd='/')
    try:
      runs.append(json.loads(p.stdout.strip().splitlines()[-1]))
    except Exception:  # pylint: disable=broad-except
      viol(kind='crash', what='history run failed: %s' % (p.stderr or p.stdout)[-400:], src='', setting={})
      runs.append({})
  nhist = 0
  if len(runs) == 2:
    for k in sorted(set(runs[0]) & set(runs[1]), key=int):
      nhist += 1
      if runs[0][k] != runs[1][k]:
        viol(kind='history-dependent', cause='other',
             what='Optimize of stub #%s depends on what was optimised earlier in the process: after stubs #0..#%d it gives %r, after stubs #%d..#%s it gives %r' % (
                 k, int(k) - 1, runs[0][k], len(HISTORY_STUBS) - 1, int(k) + 1, runs[1][k]), src=HISTORY_STUBS[int(k)], setting={})

  HDR = 'from typing import Any, Callable, List, Tuple, Union\n'
  # fixed regression inputs (known finding F8 is replayed on every run)
  check_stub('from typing import overload, Union\n@overload\ndef f(x: int) -> int: ...\n@overload\ndef f(x: Union[bool, int]) -> str: ...\n')
  sysu = systematic_unions()
  if tier == 'quick':
    sysu = sysu[::7]
  for u in sysu:
    check_stub(HDR + 'c: %s\ndef f(x: %s) -> %s: ...\n' % (u, u, u))
    if len(violations) >= 10:
      break
  for ta, tb in itertools.permutations(['int', 'str', 'Any', 'Tuple[int, ...]'], 2):
    for form in ('*args: %s', '**kwargs: %s', '*a: %s', 'x: int, *args: %s', '*args: %s, **kw: int'):
      for form2 in (form, '**kwargs: %s' if form.startswith('*args') else form):
        check_stub('from typing import overload\n' + HDR + '@overload\ndef f(' + form % ta + ') -> int: ...\n@overload\ndef f(' + form2 % tb + ') -> str: ...\n')
  # overloads whose signatures carry `raise` clauses: the exception types come from the same pool as the return types
  # (CombineReturnsAndExceptions keeps both per parameter list)
  POOL = ['int', 'str', 'float', 'bytes']
  nraise = 120 if tier == 'quick' else 1500
  for _ in range(nraise):
    if len(violations) >= 10:
      break
    nsig = rnd.choice([2, 2, 3, 4])
    p = rnd.choice(POOL)
    src = 'from typing import overload\n'
    for _k in range(nsig):
      params = 'x: %s' % (p if rnd.random() < 0.8 else rnd.choice(POOL))
      ret = rnd.choice(POOL)
      excs = rnd.sample(POOL, rnd.choice([0, 0, 1, 1, 2]))
      body = ' ...' if not excs else ''.join('\n  raise %s()' % e for e in excs)
      src += '@overload\ndef f(%s) -> %s:%s\n' % (params, ret, body)
    check_stub(src)
  nrand = 250 if tier == 'quick' else 4000
  for _ in range(nrand):
    if len(violations) >= 10:
      break
    t1, t2, t3, t4 = (gen_types(rnd, 2) for _ in range(4))
    src = HDR + 'c: %s\n' % t1
    nsig = rnd.choice([1, 2, 3])
    for _k in range(nsig):
      same_params = rnd.random() < 0.6
      p = t2 if same_params else gen_types(rnd, 1)
      stars = ''
      r_ = rnd.random()
      if r_ < 0.25:
        stars = ', *args: %s' % gen_types(rnd, 1)
      elif r_ < 0.4:
        stars = ', **kwargs: %s' % gen_types(rnd, 1)
      elif r_ < 0.5:
        stars = ', *args: %s, **kwargs: %s' % (gen_types(rnd, 0), gen_types(rnd, 0))
      src += '%sdef f(x: %s, y: %s = ...%s) -> %s: ...\n' % ('@overload\n' if nsig > 1 else '', p, t3, stars, gen_types(rnd, 2))
    if nsig > 1:
      src = 'from typing import overload\n' + src
    src += 'def g() -> %s: ...\n' % t4
    check_stub(src)

  # JoinTypes against its contract on generated lists (incl. nested unions, duplicates, Nothing, Any, None)
  nt = lambda n: pytd.NamedType(n)
  base = [nt('int'), nt('str'), nt('builtins.NoneType'), nt('NoneType'), pytd.AnythingType(), pytd.NothingType()]
  base += [pytd.UnionType((nt('int'), nt('str'))), pytd.UnionType((nt('str'), nt('float'))), pytd.UnionType((nt('builtins.NoneType'), nt('int')))]
  njoin = 0

  def den(t, v):
    if isinstance(t, pytd.AnythingType):
      return True
    if isinstance(t, pytd.NothingType):
      return False
    if isinstance(t, pytd.UnionType):
      return any(den(u, v) for u in t.type_list)
    return t.name == v
  VALS = ['int', 'str', 'float', 'builtins.NoneType', 'NoneType', 'other']
  for n in range(0, 4 if tier == 'quick' else 5):
    for combo in itertools.product(base, repeat=n):
      njoin += 1
      try:
        r = pytd_utils.JoinTypes(list(combo))
      except Exception as e:  # pylint: disable=broad-except
        viol(kind='join-crash', what='JoinTypes raised %s: %s' % (type(e).__name__, e), types=[pytd_utils.Print(t) for t in combo])
        continue
      for v in VALS:
        if den(r, v) != any(den(t, v) for t in combo):
          viol(kind='join-den', what='JoinTypes(%s) = %s admits %r differently from its inputs' % (
              [pytd_utils.Print(t) for t in combo], pytd_utils.Print(r), v))
          break
      if isinstance(r, pytd.UnionType):
        ms = r.type_list
        if len(ms) < 2 or len(set(ms)) != len(ms) or any(isinstance(m, (pytd.UnionType, pytd.NothingType)) for m in ms):
          viol(kind='join-shape', what='JoinTypes(%s) = %s is not in normal form' % ([pytd_utils.Print(t) for t in combo], pytd_utils.Print(r)))
        r2 = pytd_utils.JoinTypes(ms)
      else:
        r2 = pytd_utils.JoinTypes([r])
      if not (r2 == r):
        viol(kind='join-idempotence', what='JoinTypes of the members of %s gives %s' % (pytd_utils.Print(r), pytd_utils.Print(r2)))
      if len(violations) >= 10:
        break
  print(json.dumps(dict(
      violations=violations,
      bounded=[dict(function='optimize.Optimize (all passes; lossless settings%s) on stubs parsed and resolved by the real parser/loader' % (
                        '' if tier == 'quick' else ' + max_union=4 + remove_mutable'),
                    bound='%d systematic unions of tuples/containers/callables of mixed arity in every order + %d random stubs (type depth <= 2, '
                          '<= 3 overloads); value model: %d values (instances, tuples of arity 0..3, lists, callables); widening of every constant/parameter/return and idempotence' % (
                              len(sysu), nrand, len(U)),
                    cases=ncase),
               dict(function='pytd_utils.JoinTypes vs its contract (den, normal form, idempotence)', bound='all lists of length <= %d over 9 base types' % (3 if tier == 'quick' else 4),
                    cases=njoin)],
      spec_validation=[dict(spec='den (contracts/c11.py)', oracle='finite value model', cases=njoin)],
      counts=dict(stubs=ncase, joins=njoin)), default=str))


if __name__ == '__main__':
  main()
