"""Load a scratch-built pytype.typegraph.cfg extension without writing into the repo."""
import importlib.util
import sys


def load(repo, so_path):
  if repo not in sys.path:
    sys.path.insert(0, repo)
  import pytype.typegraph as tg  # pylint: disable=g-import-not-at-top
  spec = importlib.util.spec_from_file_location('pytype.typegraph.cfg', so_path)
  m = importlib.util.module_from_spec(spec)
  spec.loader.exec_module(m)
  sys.modules['pytype.typegraph.cfg'] = m
  tg.cfg = m
  return m
