"""Native small-scope sweep / replay for C18 on the real rewrite/flow modules.

Bounded stand-in and witness search (never counted as proved).  Runs under
/venv/bin/python with PYTHONPATH=<repo>.  Usage: c18_native.py sweep|replay <repo>  (JSON on stdin)
"""
import dataclasses
import itertools
import json
import random
import sys


def main():
  mode, repo = sys.argv[1], sys.argv[2]
  sys.path.insert(0, repo)
  payload = json.loads(sys.stdin.read() or '{}')
  from pytype.rewrite.flow import conditions, variables, state  # pylint: disable=g-import-not-at-top

  @dataclasses.dataclass(frozen=True)
  class Atom(conditions.Condition):
    name: str

    def __repr__(self):
      return self.name

  ATOMS = [Atom('a'), Atom('b'), Atom('c')]
  VALS = [dict(zip('abc', bits)) for bits in itertools.product([False, True], repeat=3)]

  def sem(c, s):
    if c is conditions.TRUE:
      return True
    if c is conditions.FALSE:
      return False
    if isinstance(c, Atom):
      return s[c.name]
    if isinstance(c, conditions._Not):
      return not sem(c.condition, s)
    if isinstance(c, conditions._And):
      return all(sem(x, s) for x in c.conditions)
    if isinstance(c, conditions._Or):
      return any(sem(x, s) for x in c.conditions)
    raise TypeError(c)

  violations = []
  counts = dict(cond_terms=0, cond_checks=0, states=0, merges=0)

  def viol(kind, what, **kw):
    if len(violations) < 20:
      violations.append(dict(kind=kind, what=what, **kw))

  # -- 1. condition constructors, exhaustive truth tables --------------------
  d0 = [conditions.TRUE, conditions.FALSE] + ATOMS
  d1 = list(d0)
  for x in d0:
    d1.append(conditions.Not(x))
  for x, y in itertools.product(d0, repeat=2):
    d1.append(conditions.And(x, y))
    d1.append(conditions.Or(x, y))
  # de-duplicate by printed form, NOT by ==/hash: equality of conditions is part of what is being tested
  d1 = list({(type(x).__name__, repr(x)): x for x in d1}.values())
  counts['cond_terms'] = len(d1)
  tier = payload.get('tier', 'quick')
  # quick: all terms of depth 0 and every third composite (And and Or over the same operands are kept together)
  comp = [x for x in d1 if x not in d0 and type(x).__name__ in ('_And', '_Or')]
  byops = {}
  for x in comp:
    byops.setdefault(repr(sorted(map(repr, x.conditions))), []).append(x)
  groups = list(byops.values())
  pool = d1 if tier == 'thorough' else [x for x in d1 if x not in comp] + [x for g in groups[::3] for x in g]
  for x in pool:
    r = conditions.Not(x)
    for s in VALS:
      counts['cond_checks'] += 1
      if sem(r, s) != (not sem(x, s)):
        viol('Not', 'Not(%r) = %r under %s' % (x, r, s), args=[repr(x)])
        break
  for n in (0, 1, 2, 3):
    for args in itertools.product(pool if n < 3 else d0 + [conditions.Not(a) for a in ATOMS], repeat=n):
      ra, ro = conditions.And(*args), conditions.Or(*args)
      for s in VALS:
        counts['cond_checks'] += 2
        if sem(ra, s) != all(sem(a, s) for a in args):
          viol('And', 'And%r = %r under %s' % (args, ra, s), args=[repr(a) for a in args])
          break
        if sem(ro, s) != any(sem(a, s) for a in args):
          viol('Or', 'Or%r = %r under %s' % (args, ro, s), args=[repr(a) for a in args])
          break

  # -- 2. Variable.with_condition ---------------------------------------------
  conds1 = d0 + [conditions.Not(a) for a in ATOMS]
  for c1, c2, c in itertools.product(conds1, conds1, conds1):
    var = variables.Variable((variables.Binding(1, c1), variables.Binding(2, c2)), name='x')
    r = var.with_condition(c)
    ok = len(r.bindings) == 2 and r.name == 'x' and all(
        rb.value == b.value and all(sem(rb.condition, s) == (sem(b.condition, s) and sem(c, s)) for s in VALS)
        for rb, b in zip(r.bindings, var.bindings))
    if not ok:
      viol('Variable.with_condition', '%r.with_condition(%r) = %r' % (var, c, r))

  # -- 3. block states reachable through the public operations ----------------
  def vals(st, name, s):
    loc = st._locals
    if name not in loc:
      return frozenset()
    if name in st._locals_with_block_condition and not sem(st._condition, s):
      return frozenset()
    return frozenset(b.value for b in loc[name].bindings if sem(b.condition, s))

  def snapshot(st):
    return repr(st)

  NAMES = ['x', 'y']
  rnd = random.Random(payload.get('seed', 0))
  seen = {}

  def add(st, hist):
    k = snapshot(st)
    if k not in seen:
      seen[k] = (st, hist)
      return True
    return False

  def fresh_state(hist_ops):
    st = state.BlockState({})
    for op in hist_ops:
      if op[0] == 'store':
        st.store_local(op[1], variables.Variable.from_value(op[2]))
      elif op[0] == 'cond':
        st = st.with_condition(op[1])
    return st

  base_ops = [('store', n, v) for n in NAMES for v in (1, 2)] + [('cond', c) for c in conds1[2:]]
  frontier = []
  for k in range(0, 4 if tier == 'quick' else 5):
    for ops in itertools.product(base_ops, repeat=k):
      st = fresh_state(ops)
      if add(st, [repr(o) for o in ops]):
        frontier.append(st)
  counts['states'] = len(seen)
  states = list(seen.values())
  rounds = 2
  limit = 20000 if tier == 'quick' else 200000
  for rd in range(rounds):
    pairs = list(itertools.product(range(len(states)), repeat=2))
    rnd.shuffle(pairs)
    new_states = []
    for ia, ib in pairs[:limit]:
      (a, ha), (b, hb) = states[ia], states[ib]
      before_a, before_b = snapshot(a), snapshot(b)
      m = a.merge_into(b)
      counts['merges'] += 1
      bad = None
      for s in VALS:
        for n in NAMES:
          want = vals(a, n, s) | vals(b, n, s)
          got = vals(m, n, s)
          if want != got:
            bad = 'under %s local %r should be %s but merged state gives %s' % (s, n, sorted(want), sorted(got))
            break
        if bad:
          break
      if bad is None and (snapshot(a) != before_a or snapshot(b) != before_b):
        bad = 'merge_into modified an input state'
      if bad:
        viol('BlockState.merge_into', bad, self=before_a, other=before_b, merged=repr(m),
             history_self=ha, history_other=hb)
      elif rd + 1 < rounds and len(new_states) < 60:
        if snapshot(m) not in seen:
          new_states.append((m, ['merge', ha, hb]))
          seen[snapshot(m)] = new_states[-1]
    states = states + new_states
  # merge_into(None) and aliasing
  for st, h in list(seen.values())[:200]:
    m = st.merge_into(None)
    if snapshot(m) != snapshot(st):
      viol('BlockState.merge_into(None)', 'copy differs: %s vs %s' % (snapshot(m), snapshot(st)))
    before = snapshot(st)
    m.store_local('zz', variables.Variable.from_value(9))
    w = st.with_condition(ATOMS[0])
    w.store_local('zz', variables.Variable.from_value(9))
    if snapshot(st) != before:
      viol('aliasing', 'a derived state shares a container with its source: %s became %s' % (before, snapshot(st)))

  out = dict(
      violations=violations,
      bounded=[dict(function='conditions.Not/And/Or', bound='%d terms of depth<=1 over 3 atoms, arity<=3, all 8 valuations' % len(pool), cases=counts['cond_checks']),
               dict(function='Variable.with_condition', bound='2 bindings x 8 conditions^3, all valuations', cases=len(conds1) ** 3),
               dict(function='BlockState.merge_into', bound='states from <=%d ops over 2 names x 2 values x 6 conditions, %d random pairs x %d rounds' % (3 if tier == 'quick' else 4, limit, rounds), cases=counts['merges'])],
      spec_validation=[dict(spec='sem (z3 axioms) vs native recursive evaluation of the real term objects', note='the native oracle is an independent formulation of the same truth-table semantics')],
      counts=counts)
  print(json.dumps(out))


if __name__ == '__main__':
  main()
