"""Native sweep for C19: the real PytypeRunner.setup_build on generated dependency structures.

For every structure (<= 5 modules: DAGs, cycles of every size, Local/Builtin/System kinds, any
subset requested, adversarial file names) the build.ninja and *.imports files written by the real
code are parsed back (ninja's lexer rules for `$` escapes) and checked:
  1. every requested non-builtin file has exactly one `check` statement;
  2. every imports-map entry is the default stub or the declared output of a build statement that
     the reading statement transitively declares as a dependency (=> no schedule reads a stub
     before it is produced), deps are declared by earlier statements, the plan is acyclic;
  3. paths containing space / colon / dollar survive into the plan unchanged;
  4. the assumed contract of yield_sorted_modules (dependency order of the yielded items).
Bounded stand-in for the text rendering / parse-back (A-IO) and for yield_sorted_modules.
"""
import itertools
import json
import os
import random
import shutil
import sys
import tempfile

sys.path.insert(0, os.path.dirname(os.path.abspath(__file__)))
import common  # pylint: disable=g-import-not-at-top


def split_ninja(s):
  toks, cur, i, has = [], [], 0, False

  def flush():
    nonlocal cur, has
    if has:
      toks.append(''.join(cur))
    cur, has = [], False
  while i < len(s):
    ch = s[i]
    if ch == '$' and i + 1 < len(s):
      cur.append(s[i + 1])
      has = True
      i += 2
      continue
    if ch == ' ':
      flush()
    elif ch in ':|':
      flush()
      toks.append((ch,))
    else:
      cur.append(ch)
      has = True
    i += 1
  flush()
  return toks


def unescape(s):
  out, i = [], 0
  while i < len(s):
    if s[i] == '$' and i + 1 < len(s):
      out.append(s[i + 1])
      i += 2
    else:
      out.append(s[i])
      i += 1
  return ''.join(out)


def parse_plan(path):
  steps, cur = [], None
  for line in open(path).read().splitlines():
    if line.startswith('build '):
      toks = split_ninja(line[len('build '):])
      colon = toks.index((':',))
      outs, rest = toks[:colon], toks[colon + 1:]
      if ('|',) in rest:
        bar = rest.index(('|',))
        explicit, implicit = rest[1:bar], rest[bar + 1:]
      else:
        explicit, implicit = rest[1:], []
      cur = dict(outputs=outs, action=rest[0] if rest else None, inputs=explicit, deps=list(implicit), imports=None, module=None)
      steps.append(cur)
    elif line.startswith('rule '):
      cur = None
    elif cur is not None and line.startswith('  imports = '):
      cur['imports'] = unescape(line[len('  imports = '):])
    elif cur is not None and line.startswith('  module = '):
      cur['module'] = line[len('  module = '):]
  return steps


def structures(rnd, tier):
  """Yields (groups, requested idx set): groups = list of (member idxs, dep idxs) in dependency order."""
  # exhaustive-ish small scope: n modules, partition into consecutive groups (cycles), deps on earlier groups
  out = []
  for n in ((1, 2, 3, 4) if tier == 'quick' else (1, 2, 3, 4, 5)):
    for cuts in itertools.product([0, 1], repeat=n - 1):
      groups = [[0]]
      for i, c in enumerate(cuts, 1):
        if c:
          groups.append([i])
        else:
          groups[-1].append(i)
      out.append(groups)
  res = []
  for groups in out:
    earlier = []
    variants = [[]]
    for g in groups:
      opts = []
      for r in range(0, min(len(earlier), 2) + 1):
        opts += [list(c) for c in itertools.combinations(earlier, r)]
      if len(opts) > (4 if tier == 'quick' else 6):
        opts = rnd.sample(opts, 4 if tier == 'quick' else 6)
      variants = [v + [o] for v in variants for o in opts]
      earlier = earlier + g
    for deps in variants:
      res.append(list(zip(groups, deps)))
  rnd.shuffle(res)
  return res[:700] if tier == 'quick' else res[:6000]


NAMES = ['a', 'b', 'pkg/c', 'pkg/sub/d', 'e']
# pytype's own extension library is analysed even when importlab classifies it as a System module
EXT_NAMES = ['pytype_extensions/ext0', 'b', 'pytype_extensions/sub/ext1', 'pkg/sub/d', 'e']
ADVERSARIAL = ['my mod', 'we$ird', 'co:lon', 'pkg dir/x', 'a$b c:d']


def main():
  mode, repo = sys.argv[1], sys.argv[2]
  payload = json.loads(sys.stdin.read() or '{}')
  tier = payload.get('tier', 'quick')
  rnd = random.Random(payload.get('seed', 0))
  common.load_cfg(repo)
  import logging  # pylint: disable=g-import-not-at-top
  logging.disable(logging.CRITICAL)
  from pytype import module_utils  # pylint: disable=g-import-not-at-top
  from pytype.tools.analyze_project import parse_args, pytype_runner  # pylint: disable=g-import-not-at-top
  violations = []

  def viol(**kw):
    if len(violations) < 10:
      violations.append(kw)
  ncase = 0
  nitems = 0
  base = tempfile.mkdtemp(prefix='c19_native_')
  try:
    for si, struct in enumerate(structures(rnd, tier)):
      nmods = sum(len(g) for g, _ in struct)
      for variant in range(3 if tier == 'quick' else 6):
        kinds = [rnd.choice(['Local', 'Local', 'Local', 'Direct', 'Builtin', 'System']) for _ in range(nmods)]
        adversarial = variant == 2
        srcdir = os.path.join(base, 'src dir$1' if adversarial else 'src')
        names = [rnd.choice(ADVERSARIAL) if adversarial and rnd.random() < 0.5 else NAMES[i] for i in range(nmods)]
        if len(set(names)) != len(names):
          names = NAMES[:nmods]
        if variant == 1:
          names = EXT_NAMES[:nmods]
        mods = []
        for i in range(nmods):
          target = names[i] + '.py'
          # adversarial names contain characters that are not valid in module names; the module name is derived as importlab would
          mods.append(module_utils.Module(path=srcdir + os.sep, target=target, name=names[i].replace('/', '.'), kind=kinds[i]))
        requested = [m for i, m in enumerate(mods) if rnd.random() < 0.5]
        if not requested:
          requested = [mods[-1]]
        sorted_sources = [(tuple(mods[i] for i in g), tuple(mods[i] for i in d)) for g, d in struct]
        out = os.path.join(base, 'out put$%d' % ncase if adversarial else 'out%d' % ncase)
        ncase += 1
        parser = parse_args.make_parser()
        conf = parser.config_from_defaults()
        conf.output = out
        conf.inputs = [m.full_path for m in requested]
        label = dict(groups=[[list(g), list(d)] for g, d in struct], kinds=kinds, names=names,
                     requested=[mods.index(m) for m in requested], adversarial=adversarial)
        try:
          runner = pytype_runner.PytypeRunner(conf, sorted_sources)
          items = list(runner.yield_sorted_modules())
          runner2 = pytype_runner.PytypeRunner(conf, sorted_sources)
          files = runner2.setup_build()
          steps = parse_plan(runner2.ninja_file)
        except Exception as e:  # pylint: disable=broad-except
          viol(kind='crash', what='%s: %s' % (type(e).__name__, e), structure=label)
          continue
        # 4. the assumed contract of yield_sorted_modules
        for j, (m, action, deps, stage) in enumerate(items):
          nitems += 1
          if action not in ('check', 'infer', 'generate default') or stage not in ('single pass', 'first pass', 'second pass'):
            viol(kind='items', what='unexpected action/stage %r/%r' % (action, stage), structure=label)
          for d in deps:
            if not any(items[i][0] == d for i in range(j)):
              viol(kind='items', what='item %d (%s, %s) depends on %s which no earlier item has' % (j, m.name, stage, d.name), structure=label)
          for i in range(len(items)):
            if items[i][0] == m and (items[i][1] == 'generate default') != (action == 'generate default'):
              viol(kind='items', what='module %s is sometimes generate-default and sometimes not' % m.name, structure=label)
        default_pyi = os.path.join(runner2.imports_dir, 'default.pyi')
        producer = {}
        order = {}
        for k, s in enumerate(steps):
          if len(s['outputs']) != 1 or len(s['inputs']) != 1:
            viol(kind='plan', what='statement with %d outputs / %d inputs after un-escaping: %r' % (len(s['outputs']), len(s['inputs']), s), structure=label)
            continue
          o = s['outputs'][0]
          if o in producer:
            viol(kind='plan', what='output %s declared twice' % o, structure=label)
          producer[o] = s
          order[o] = k
        # 1. exactly one check statement per requested file that gets analysed
        for m in requested:
          n = sum(1 for s in steps if s['action'] == 'check' and s['inputs'] == [m.full_path])
          expect = 0 if (m.kind in ('Builtin', 'System') and not m.name.startswith('pytype_extensions.')) else 1
          if n != expect:
            viol(kind='check-count', what='%s (kind %s) has %d check statements, expected %d' % (m.full_path, m.kind, n, expect), structure=label)
        # 3. paths survive unchanged
        for s in steps:
          if s['inputs'] and s['inputs'][0] not in [m.full_path for m in mods]:
            viol(kind='path', what='input path %r in the plan is not the path of any module' % (s['inputs'][0],), structure=label)
          if s['outputs'] and not s['outputs'][0].startswith(runner2.pyi_dir):
            viol(kind='path', what='output path %r is not under %r' % (s['outputs'][0], runner2.pyi_dir), structure=label)
        anc = {}

        def ancestors(o, seen=()):
          if o in seen:
            return None
          if o not in anc:
            res = set()
            for d in producer[o]['deps']:
              if d in producer:
                res.add(d)
                sub = ancestors(d, seen + (o,))
                if sub is None:
                  return None
                res |= sub
            anc[o] = res
          return anc[o]
        for o, s in producer.items():
          for d in s['deps']:
            if d not in producer:
              viol(kind='order', what='%s depends on %s which no statement produces' % (o, d), structure=label)
            elif order[d] >= order[o]:
              viol(kind='order', what='%s depends on %s which is declared later' % (o, d), structure=label)
          a = ancestors(o)
          if a is None:
            viol(kind='order', what='dependency cycle through %s' % o, structure=label)
            continue
          if not s['imports'] or not os.path.exists(s['imports']):
            viol(kind='imports', what='imports file %r of %s does not exist' % (s['imports'], o), structure=label)
            continue
          for line in open(s['imports']).read().splitlines():
            short, _, full = line.partition(' ')
            if adversarial and ' ' in ''.join(names):
              # F7 (known limitation of the .imports format): a module-relative path with a space cannot be split back
              continue
            if full == default_pyi:
              continue
            if full not in producer:
              viol(kind='imports', what='%s reads %s (as %r) which is neither the default stub nor a declared output' % (o, full, short), structure=label)
            elif full not in a:
              viol(kind='imports', what='%s reads %s (as %r) but does not (transitively) declare its build step as a dependency: '
                   'a parallel schedule may run the reader first' % (o, full, short), structure=label)
        shutil.rmtree(out, ignore_errors=True)
        if len(violations) >= 10:
          break
      if len(violations) >= 10:
        break
  finally:
    shutil.rmtree(base, ignore_errors=True)
  print(json.dumps(dict(
      violations=violations,
      bounded=[dict(function='PytypeRunner.setup_build / write_build_statement / write_imports / escape_ninja_path: real files parsed back',
                    bound='%d generated projects: every split of <= 4 modules into consecutive groups (cycles of every size) x dependency sets on earlier '
                          'groups (<= 2 deps each) x random kinds / requested subsets / adversarial names (space, colon, dollar)' % ncase,
                    cases=ncase),
               dict(function='PytypeRunner.yield_sorted_modules vs its assumed contract (dependency order, stages, default action per module)',
                    bound='same projects', cases=nitems)],
      spec_validation=[],
      counts=dict(projects=ncase, items=nitems)), default=str))


if __name__ == '__main__':
  main()
