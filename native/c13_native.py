"""Native sweep for C13: pytype's call binding vs real CPython calls, through the real VM."""
import itertools
import json
import os
import random
import sys

sys.path.insert(0, os.path.dirname(os.path.abspath(__file__)))
import common  # pylint: disable=g-import-not-at-top

ERRS = {'wrong-arg-count', 'wrong-keyword-args', 'missing-parameter', 'duplicate-keyword-argument'}


def signatures():
  out = []
  for npo, npk, nko in itertools.product(range(3), range(3), range(3)):
    for dpos in range(npo + npk + 1):          # number of defaulted positionals (suffix)
      for dko in ([()] if nko == 0 else [(), (0,), tuple(range(nko))]):
        for va, kw in itertools.product([False, True], repeat=2):
          out.append((npo, npk, nko, dpos, dko, va, kw))
  return out


def render(sig):
  npo, npk, nko, dpos, dko, va, kw = sig
  pos = ['p%d' % i for i in range(npo)] + ['a%d' % i for i in range(npk)]
  parts = []
  for i, n in enumerate(pos):
    d = '=1.5' if i >= len(pos) - dpos else ''
    parts.append(n + d)
    if npo and i == npo - 1:
      parts.append('/')
  if va:
    parts.append('*args')
  elif nko:
    parts.append('*')
  for i in range(nko):
    parts.append('k%d%s' % (i, '=2j' if i in dko else ''))
  if kw:
    parts.append('**kw')
  scal = pos + ['k%d' % i for i in range(nko)]
  return 'def f(%s):\n  return (%s)' % (', '.join(parts), ''.join(s + ', ' for s in scal) or '()'), scal


def main():
  mode, repo = sys.argv[1], sys.argv[2]
  payload = json.loads(sys.stdin.read() or '{}')
  tier = payload.get('tier', 'quick')
  rnd = random.Random(payload.get('seed', 0))
  common.load_cfg(repo)
  from pytype import config, io  # pylint: disable=g-import-not-at-top
  from pytype.pytd import pytd_utils  # pylint: disable=g-import-not-at-top
  opts = config.Options.create(python_version=(3, 12))
  sigs = signatures()
  rnd.shuffle(sigs)
  nsig = 45 if tier == 'quick' else 400
  kwpool = ['p0', 'a0', 'a1', 'k0', 'k1', 'zz', 'args', 'kw']   # incl. keywords named like the *args / **kw parameters
  kwsets = [()] + [(k,) for k in kwpool] + list(itertools.combinations(kwpool, 2))
  violations = []
  calls = 0
  nontrivial = set()
  for sig in sigs[:nsig]:
    src, scal = render(sig)
    shapes = [(n, ks) for n in range(5) for ks in kwsets]
    if tier == 'quick':
      shapes = rnd.sample(shapes, 40)
    lines = [src]
    for n, ks in shapes:
      args = [str(i) for i in range(n)] + ["%s='s'" % k for k in ks]
      lines.append('r%d = f(%s)' % (len(lines), ', '.join(args)))
    prog = '\n'.join(lines) + '\n'
    env = {}
    exec(src, env)   # pylint: disable=exec-used
    want_err = {}
    want_val = {}
    for li, (n, ks) in enumerate(shapes):
      line = 3 + li
      try:
        r = env['f'](*range(n), **{k: 's' for k in ks})
        want_err[line] = False
        want_val[line] = [type(v).__name__ for v in r]
      except TypeError:
        want_err[line] = True
    try:
      analysis = io.generate_pyi_ast(prog, opts)
    except Exception as e:  # pylint: disable=broad-except
      violations.append(dict(kind='vm-crash', what='analysis raised %r' % (e,), program=prog))
      continue
    got = {}
    for e in analysis.context.errorlog.unique_sorted_errors():
      if e.name in ERRS:
        got[e.line] = e.name
    consts = {c.name: pytd_utils.Print(c.type) for c in analysis.ast.constants}
    for li, (n, ks) in enumerate(shapes):
      line = 3 + li
      calls += 1
      nontrivial.add((sig[:3], n, len(ks), want_err[line]))
      if want_err[line] != (line in got):
        if len(violations) < 20:
          violations.append(dict(
              kind='bind-error', program=src + '\n' + lines[1 + li],
              what='%s ; %s: CPython %s, pytype %s' % (
                  src.splitlines()[0], lines[1 + li], 'raises TypeError' if want_err[line] else 'binds',
                  'reports ' + got[line] if line in got else 'reports nothing')))
      elif not want_err[line] and scal:
        t = consts.get('r%d' % (1 + li), '')
        inner = t[t.find('[') + 1:t.rfind(']')] if '[' in t else ''
        got_types = [x.strip() for x in inner.split(',')] if inner else []
        if got_types != want_val[line] and len(violations) < 20:
          violations.append(dict(
              kind='bind-value', program=src + '\n' + lines[1 + li],
              what='%s ; %s: parameters receive %s under CPython but pytype infers %s' % (
                  src.splitlines()[0], lines[1 + li], want_val[line], t)))
  # assignments to __defaults__ (SignedFunction.set_function_defaults): the new tuple replaces the positional defaults,
  # keyword-only defaults stay
  ndef = 0
  dsigs = ['a, b', 'a=1, b=2', 'a, b=2', 'a, b=2, c=3', 'a, *, k=1', 'a=1, *, k', 'a, b=2, *, k=1, m', 'a=1, b=2, *args, k=3', 'a, /, b=2, *, k=1, **kw']
  dtuples = ['()', '(5,)', '(5, 6)', '(5, 6, 7)']
  dcalls = ['()', '(1)', '(1, 2)', '(1, 2, 3)', '(k=9)', '(1, k=9)', '(1, 2, k=9, m=8)', '(b=1)', '(1, m=2)']
  for sg in dsigs:
    for tp in dtuples:
      lines = ['def f(%s):\n  return 0' % sg, 'f.__defaults__ = %s' % tp] + ['r%d = f%s' % (i, c) for i, c in enumerate(dcalls)]
      prog = '\n'.join(lines) + '\n'
      env = {}
      try:
        exec('def f(%s):\n  return 0\nf.__defaults__ = %s\n' % (sg, tp), env)   # pylint: disable=exec-used
      except Exception:  # pylint: disable=broad-except
        continue
      want = {}
      for i, c in enumerate(dcalls):
        try:
          eval('f' + c, env)   # pylint: disable=eval-used
          want[4 + i] = False
        except TypeError:
          want[4 + i] = True
      try:
        analysis = io.generate_pyi_ast(prog, opts)
      except Exception as e:  # pylint: disable=broad-except
        violations.append(dict(kind='vm-crash', what='analysis raised %r' % (e,), program=prog))
        continue
      got = {e.line for e in analysis.context.errorlog.unique_sorted_errors() if e.name in ERRS}
      for i, c in enumerate(dcalls):
        ndef += 1
        if want[4 + i] != ((4 + i) in got) and len(violations) < 20:
          violations.append(dict(kind='bind-error', program='def f(%s): ...\nf.__defaults__ = %s\nf%s' % (sg, tp, c),
                                 what='def f(%s); f.__defaults__ = %s; f%s: CPython %s, pytype %s' % (
                                     sg, tp, c, 'raises TypeError' if want[4 + i] else 'binds', 'reports an error' if (4 + i) in got else 'reports nothing')))
  print(json.dumps(dict(
      violations=violations,
      bounded=[dict(function='SignedFunction._map_args through the VM (InterpreterFunction.call)',
                    bound='%d signatures (<=2 positional-only, <=2 positional-or-keyword, <=2 keyword-only, defaults, *args, **kw) x %s call shapes (<=4 positionals, <=2 keywords)' % (
                        min(nsig, len(sigs)), '40 sampled' if tier == 'quick' else 'all 185'), cases=calls),
               dict(function='SignedFunction.set_function_defaults through the VM (f.__defaults__ = tuple)', bound='9 signatures x 4 tuples x 9 calls', cases=ndef)],
      spec_validation=[dict(spec='bind_ok/bound_value (z3) vs real calls: the kernel is proved equal to the spec, and the VM is compared with real calls here')],
      counts=dict(calls=calls, distinct_shapes=len(nontrivial)))))


if __name__ == '__main__':
  main()
