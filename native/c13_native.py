"""Native sweep for C13: pytype's call binding vs real CPython calls, through the real VM."""
import itertools
import json
import os
import random
import sys

sys.path.insert(0, os.path.dirname(os.path.abspath(__file__)))
import common  # pylint: disable=g-import-not-at-top

ERRS = {'wrong-arg-count', 'wrong-keyword-args', 'missing-parameter', 'duplicate-keyword-argument'}


def signatures():
  out = []
  for npo, npk, nko in itertools.product(range(3), range(3), range(3)):
    for dpos in range(npo + npk + 1):          # number of defaulted positionals (suffix)
      for dko in ([()] if nko == 0 else [(), (0,), tuple(range(nko))]):
        for va, kw in itertools.product([False, True], repeat=2):
          out.append((npo, npk, nko, dpos, dko, va, kw))
  return out


def render(sig):
  npo, npk, nko, dpos, dko, va, kw = sig
  pos = ['p%d' % i for i in range(npo)] + ['a%d' % i for i in range(npk)]
  parts = []
  for i, n in enumerate(pos):
    d = '=1.5' if i >= len(pos) - dpos else ''
    parts.append(n + d)
    if npo and i == npo - 1:
      parts.append('/')
  if va:
    parts.append('*args')
  elif nko:
    parts.append('*')
  for i in range(nko):
    parts.append('k%d%s' % (i, '=2j' if i in dko else ''))
  if kw:
    parts.append('**kw')
  scal = pos + ['k%d' % i for i in range(nko)]
  return 'def f(%s):\n  return (%s)' % (', '.join(parts), ''.join(s + ', ' for s in scal) or '()'), scal


def render_member(kind, sig):
  """The signature of render(sig) as a method / classmethod / staticmethod / constructor of a class C; returns (source, callee)."""
  src, scal = render(sig)
  ps = src.splitlines()[0][len('def f('):-2]
  ret = '(%s)' % (''.join(s + ', ' for s in scal) or '()')
  first = lambda name: name + (', ' + ps if ps else '')
  if kind == 'method':
    return 'class C:\n  def f(%s):\n    return %s\n' % (first('self'), ret), 'C().f'
  if kind == 'classmethod':
    return 'class C:\n  @classmethod\n  def f(%s):\n    return %s\n' % (first('cls'), ret), 'C.f'
  if kind == 'classmethod_inst':
    return 'class C:\n  @classmethod\n  def f(%s):\n    return %s\n' % (first('cls'), ret), 'C().f'
  if kind == 'staticmethod':
    return 'class C:\n  @staticmethod\n  def f(%s):\n    return %s\n' % (ps, ret), 'C.f'
  if kind == 'init':
    return 'class C:\n  def __init__(%s):\n    self.v = %s\n' % (first('self'), ret), 'C'
  if kind == 'new':
    return 'class C:\n  def __new__(%s):\n    return object.__new__(cls)\n' % first('cls'), 'C'
  # inherited members: the subclass defines nothing, so the constructor's other half is object's
  if kind == 'new_inherited':
    return 'class B:\n  def __new__(%s):\n    return object.__new__(cls)\nclass C(B):\n  pass\n' % first('cls'), 'C'
  if kind == 'init_inherited':
    return 'class B:\n  def __init__(%s):\n    self.v = %s\nclass C(B):\n  pass\n' % (first('self'), ret), 'C'
  if kind == 'new_and_init':
    return ('class C:\n  def __new__(cls, *args, **kwargs):\n    return object.__new__(cls)\n  def __init__(%s):\n    self.v = %s\n'
            % (first('self'), ret)), 'C'
  assert kind == 'method_inherited', kind
  return 'class B:\n  def f(%s):\n    return %s\nclass C(B):\n  pass\n' % (first('self'), ret), 'C().f'


def main():
  mode, repo = sys.argv[1], sys.argv[2]
  payload = json.loads(sys.stdin.read() or '{}')
  tier = payload.get('tier', 'quick')
  rnd = random.Random(payload.get('seed', 0))
  common.load_cfg(repo)
  from pytype import config, io  # pylint: disable=g-import-not-at-top
  from pytype.pytd import pytd_utils  # pylint: disable=g-import-not-at-top
  opts = config.Options.create(python_version=(3, 12))
  sigs = signatures()
  rnd.shuffle(sigs)
  nsig = 45 if tier == 'quick' else 400
  kwpool = ['p0', 'a0', 'a1', 'k0', 'k1', 'zz', 'args', 'kw']   # incl. keywords named like the *args / **kw parameters
  kwsets = [()] + [(k,) for k in kwpool] + list(itertools.combinations(kwpool, 2))
  violations = []
  calls = 0
  nontrivial = set()
  for sig in sigs[:nsig]:
    src, scal = render(sig)
    shapes = [(n, ks) for n in range(5) for ks in kwsets]
    if tier == 'quick':
      shapes = rnd.sample(shapes, 40)
    lines = [src]
    for n, ks in shapes:
      args = [str(i) for i in range(n)] + ["%s='s'" % k for k in ks]
      lines.append('r%d = f(%s)' % (len(lines), ', '.join(args)))
    prog = '\n'.join(lines) + '\n'
    env = {}
    exec(src, env)   # pylint: disable=exec-used
    want_err = {}
    want_val = {}
    for li, (n, ks) in enumerate(shapes):
      line = 3 + li
      try:
        r = env['f'](*range(n), **{k: 's' for k in ks})
        want_err[line] = False
        want_val[line] = [type(v).__name__ for v in r]
      except TypeError:
        want_err[line] = True
    try:
      analysis = io.generate_pyi_ast(prog, opts)
    except Exception as e:  # pylint: disable=broad-except
      violations.append(dict(kind='vm-crash', what='analysis raised %r' % (e,), program=prog))
      continue
    got = {}
    for e in analysis.context.errorlog.unique_sorted_errors():
      if e.name in ERRS:
        got[e.line] = e.name
    consts = {c.name: pytd_utils.Print(c.type) for c in analysis.ast.constants}
    for li, (n, ks) in enumerate(shapes):
      line = 3 + li
      calls += 1
      nontrivial.add((sig[:3], n, len(ks), want_err[line]))
      if want_err[line] != (line in got):
        if len(violations) < 20:
          violations.append(dict(
              kind='bind-error', program=src + '\n' + lines[1 + li],
              what='%s ; %s: CPython %s, pytype %s' % (
                  src.splitlines()[0], lines[1 + li], 'raises TypeError' if want_err[line] else 'binds',
                  'reports ' + got[line] if line in got else 'reports nothing')))
      elif not want_err[line] and scal:
        t = consts.get('r%d' % (1 + li), '')
        inner = t[t.find('[') + 1:t.rfind(']')] if '[' in t else ''
        got_types = [x.strip() for x in inner.split(',')] if inner else []
        if got_types != want_val[line] and len(violations) < 20:
          violations.append(dict(
              kind='bind-value', program=src + '\n' + lines[1 + li],
              what='%s ; %s: parameters receive %s under CPython but pytype infers %s' % (
                  src.splitlines()[0], lines[1 + li], want_val[line], t)))
  # assignments to __defaults__ (SignedFunction.set_function_defaults): the new tuple replaces the positional defaults,
  # keyword-only defaults stay
  ndef = 0
  dsigs = ['a, b', 'a=1, b=2', 'a, b=2', 'a, b=2, c=3', 'a, *, k=1', 'a=1, *, k', 'a, b=2, *, k=1, m', 'a=1, b=2, *args, k=3', 'a, /, b=2, *, k=1, **kw']
  dtuples = ['()', '(5,)', '(5, 6)', '(5, 6, 7)']
  dcalls = ['()', '(1)', '(1, 2)', '(1, 2, 3)', '(k=9)', '(1, k=9)', '(1, 2, k=9, m=8)', '(b=1)', '(1, m=2)']
  for sg in dsigs:
    for tp in dtuples:
      lines = ['def f(%s):\n  return 0' % sg, 'f.__defaults__ = %s' % tp] + ['r%d = f%s' % (i, c) for i, c in enumerate(dcalls)]
      prog = '\n'.join(lines) + '\n'
      env = {}
      try:
        exec('def f(%s):\n  return 0\nf.__defaults__ = %s\n' % (sg, tp), env)   # pylint: disable=exec-used
      except Exception:  # pylint: disable=broad-except
        continue
      want = {}
      for i, c in enumerate(dcalls):
        try:
          eval('f' + c, env)   # pylint: disable=eval-used
          want[4 + i] = False
        except TypeError:
          want[4 + i] = True
      try:
        analysis = io.generate_pyi_ast(prog, opts)
      except Exception as e:  # pylint: disable=broad-except
        violations.append(dict(kind='vm-crash', what='analysis raised %r' % (e,), program=prog))
        continue
      got = {e.line for e in analysis.context.errorlog.unique_sorted_errors() if e.name in ERRS}
      for i, c in enumerate(dcalls):
        ndef += 1
        if want[4 + i] != ((4 + i) in got) and len(violations) < 20:
          violations.append(dict(kind='bind-error', program='def f(%s): ...\nf.__defaults__ = %s\nf%s' % (sg, tp, c),
                                 what='def f(%s); f.__defaults__ = %s; f%s: CPython %s, pytype %s' % (
                                     sg, tp, c, 'raises TypeError' if want[4 + i] else 'binds', 'reports an error' if (4 + i) in got else 'reports nothing')))
  # methods, classmethods, staticmethods and constructors (the property's quantifier): the same signatures behind a bound first
  # parameter; keywords named like it ('self', 'cls') included
  nmeth = 0
  kwpool2 = kwpool + ['self', 'cls']
  kwsets2 = [()] + [(k,) for k in kwpool2] + list(itertools.combinations(kwpool2, 2))
  allshapes2 = [(n, ks) for n in range(5) for ks in kwsets2]
  KINDS = ('method', 'classmethod', 'classmethod_inst', 'staticmethod', 'init', 'new', 'new_inherited', 'init_inherited', 'new_and_init',
           'method_inherited')
  for kind in KINDS:
    for sig in rnd.sample(sigs, 6 if tier == 'quick' else 50):
      src, callee = render_member(kind, sig)
      shapes = rnd.sample(allshapes2, 20 if tier == 'quick' else 60)
      body = src.rstrip('\n')
      base = len(body.splitlines())
      env = {}
      exec(src, env)   # pylint: disable=exec-used
      lines = [body]
      want = []
      for li, (n, ks) in enumerate(shapes):
        call = '%s(%s)' % (callee, ', '.join([str(i) for i in range(n)] + ["%s='s'" % k for k in ks]))
        lines.append('r%d = %s' % (li, call))
        try:
          r = eval(call, env)   # pylint: disable=eval-used
          want.append((False, [type(v).__name__ for v in r] if isinstance(r, tuple) and r else None))   # () carries no parameter to compare
        except TypeError:
          want.append((True, None))
      prog = '\n'.join(lines) + '\n'
      try:
        analysis = io.generate_pyi_ast(prog, opts)
      except Exception as e:  # pylint: disable=broad-except
        violations.append(dict(kind='vm-crash', what='analysis raised %r' % (e,), program=prog))
        continue
      got = {e.line: e.name for e in analysis.context.errorlog.unique_sorted_errors() if e.name in ERRS}
      consts = {c.name: pytd_utils.Print(c.type) for c in analysis.ast.constants}
      for li in range(len(shapes)):
        nmeth += 1
        line = base + 1 + li
        if want[li][0] != (line in got):
          if len(violations) < 20:
            violations.append(dict(kind='bind-error', program=body + '\n' + lines[1 + li],
                                   what='%s: %s ; %s: CPython %s, pytype %s' % (
                                       kind, ' '.join(x.strip() for x in body.splitlines()[:-1]), lines[1 + li],
                                       'raises TypeError' if want[li][0] else 'binds',
                                       'reports ' + got[line] if line in got else 'reports nothing')))
        elif want[li][1] is not None and kind in ('method', 'classmethod', 'classmethod_inst', 'staticmethod', 'method_inherited'):
          t = consts.get('r%d' % li, '')
          inner = t[t.find('[') + 1:t.rfind(']')] if '[' in t else ''
          got_types = [x.strip() for x in inner.split(',')] if inner else []
          if got_types != want[li][1] and len(violations) < 20:
            violations.append(dict(kind='bind-value', program=body + '\n' + lines[1 + li],
                                   what='%s: %s ; %s: parameters receive %s under CPython but pytype infers %s' % (
                                       kind, ' '.join(x.strip() for x in body.splitlines()[:-1]), lines[1 + li], want[li][1], t)))
  # functions, methods and constructors declared in a stub (PyTDFunction / PyTDSignature binding): the same signatures in a .pyi on
  # the pythonpath, called from an analysed program; oracle: a def with the same parameter list
  npytd = 0
  import shutil  # pylint: disable=g-import-not-at-top
  import tempfile  # pylint: disable=g-import-not-at-top
  d = tempfile.mkdtemp(prefix='c13_native_')
  try:
    sel = rnd.sample(sigs, 16 if tier == 'quick' else 120)
    stub, py = [], []
    for i, sig in enumerate(sel):
      ps = render(sig)[0].splitlines()[0][len('def f('):-2]
      pyi_ps = ps.replace('=1.5', '=...').replace('=2j', '=...')
      more, pyi_more = (', ' + ps) if ps else '', (', ' + pyi_ps) if pyi_ps else ''
      stub.append('def f%d(%s) -> int: ...' % (i, pyi_ps))
      stub.append('class K%d:\n  def m(self%s) -> int: ...\n  def __init__(self%s) -> None: ...' % (i, pyi_more, pyi_more))
      py.append('def f%d(%s): return 0' % (i, ps))
      py.append('class K%d:\n  def m(self%s): return 0\n  def __init__(self%s): pass' % (i, more, more))
    with open(os.path.join(d, 'c13stub.pyi'), 'w') as f:
      f.write('\n'.join(stub) + '\n')
    env = {}
    exec('\n'.join(py), env)   # pylint: disable=exec-used
    ns = type('c13stub', (), {})()
    ns.__dict__.update(env)
    popts = config.Options.create(python_version=(3, 12), pythonpath=d)
    for i, sig in enumerate(sel):
      shapes = rnd.sample(allshapes2, 15 if tier == 'quick' else 50)
      calls = []
      for callee in ('c13stub.f%d' % i, 'k.m', 'c13stub.K%d' % i):
        for n, ks in shapes:
          calls.append('%s(%s)' % (callee, ', '.join([str(j) for j in range(n)] + ["%s='s'" % k for k in ks])))
      k = env['K%d' % i].__new__(env['K%d' % i])
      want = []
      for cl in calls:
        try:
          eval(cl, {'c13stub': ns, 'k': k})   # pylint: disable=eval-used
          want.append(False)
        except TypeError:
          want.append(True)
      prog = '\n'.join(['import c13stub', 'k = c13stub.K%d.__new__(c13stub.K%d)' % (i, i)] +
                       ['r%d = %s' % (j, cl) for j, cl in enumerate(calls)]) + '\n'
      try:
        analysis = io.generate_pyi_ast(prog, popts)
      except Exception as e:  # pylint: disable=broad-except
        violations.append(dict(kind='vm-crash', what='analysis raised %r' % (e,), program=prog))
        continue
      errs = analysis.context.errorlog.unique_sorted_errors()
      if any(e.name == 'import-error' for e in errs):
        raise RuntimeError('the stub on the pythonpath was not found: the sweep over stub functions would be vacuous')
      got = {e.line: e.name for e in errs if e.name in ERRS}
      for j, cl in enumerate(calls):
        npytd += 1
        if want[j] != ((3 + j) in got) and len(violations) < 20:
          decl = stub[2 * i] if cl.startswith('c13stub.f') else stub[2 * i + 1].replace('\n', ' ;')
          violations.append(dict(kind='bind-error', program='# c13stub.pyi:\n# %s\nimport c13stub\n%s' % (decl, cl),
                                 what='stub: %s ; %s: CPython %s, pytype %s' % (
                                     decl, cl, 'raises TypeError' if want[j] else 'binds',
                                     'reports ' + got[3 + j] if (3 + j) in got else 'reports nothing')))
  finally:
    shutil.rmtree(d, ignore_errors=True)
  print(json.dumps(dict(
      violations=violations,
      bounded=[dict(function='SignedFunction._map_args through the VM (InterpreterFunction.call)',
                    bound='%d signatures (<=2 positional-only, <=2 positional-or-keyword, <=2 keyword-only, defaults, *args, **kw) x %s call shapes (<=4 positionals, <=2 keywords)' % (
                        min(nsig, len(sigs)), '40 sampled' if tier == 'quick' else 'all 185'), cases=calls),
               dict(function='SignedFunction.set_function_defaults through the VM (f.__defaults__ = tuple)', bound='9 signatures x 4 tuples x 9 calls', cases=ndef),
               dict(function='InterpreterFunction.call for methods, classmethods (through the class and an instance), staticmethods, __init__ and __new__ (own, inherited, both) through the VM',
                    bound='10 kinds x %d signatures x %d call shapes (keywords incl. self/cls)' % ((6, 20) if tier == 'quick' else (50, 60)), cases=nmeth),
               dict(function='PyTDFunction / PyTDSignature binding through the VM (functions, methods and constructors declared in a stub on the pythonpath)',
                    bound='%d signatures x 3 callees x %d call shapes' % ((16, 15) if tier == 'quick' else (120, 50)), cases=npytd)],
      spec_validation=[dict(spec='bind_ok/bound_value (z3) vs real calls: the kernel is proved equal to the spec, and the VM is compared with real calls here')],
      counts=dict(calls=calls, distinct_shapes=len(nontrivial)))))


if __name__ == '__main__':
  main()
