"""Native history search for C08: every query on a long-lived Program vs a replica rebuilt from the log."""
import json
import os
import random
import sys

sys.path.insert(0, os.path.dirname(os.path.abspath(__file__)))
import common  # pylint: disable=g-import-not-at-top

DATA = ['A', 'B']


class World:
  """A Program plus index-based handles so that a log can be replayed on a fresh Program."""

  def __init__(self, cfg):
    self.p = cfg.Program()
    self.nodes = []
    self.vars = []

  def binding(self, ref):
    v, data = ref
    for b in self.vars[v].bindings:
      if b.data == data:
        return b
    return None

  def apply(self, op):
    k = op[0]
    if k == 'node':
      self.nodes.append(self.p.NewCFGNode('n%d' % len(self.nodes)))
    elif k == 'connect':
      self.nodes[op[1]].ConnectTo(self.nodes[op[2]])
    elif k == 'connect_new':
      self.nodes.append(self.nodes[op[1]].ConnectNew('n%d' % len(self.nodes)))
    elif k == 'var':
      self.vars.append(self.p.NewVariable())
    elif k == 'add_binding':
      srcs = [self.binding(r) for r in op[3]]
      if all(s is not None for s in srcs):
        self.vars[op[1]].AddBinding(op[2], source_set=srcs, where=self.nodes[op[4]])
    elif k == 'add_origin':
      b = self.binding(op[1])
      srcs = [self.binding(r) for r in op[3]]
      if b is not None and all(s is not None for s in srcs):
        b.AddOrigin(self.nodes[op[2]], srcs)
    elif k == 'paste_binding':
      b = self.binding(op[2])
      extra = [self.binding(r) for r in op[4]]
      if b is not None and all(s is not None for s in extra):
        self.vars[op[1]].PasteBinding(b, self.nodes[op[3]] if op[3] is not None else None, extra)
    elif k == 'paste_variable':
      extra = [self.binding(r) for r in op[4]]
      if all(s is not None for s in extra):
        self.vars[op[1]].PasteVariable(self.vars[op[2]], self.nodes[op[3]] if op[3] is not None else None, extra)
    elif k == 'assign_new':
      self.vars.append(self.vars[op[1]].AssignToNewVariable(self.nodes[op[2]] if op[2] is not None else None))
    elif k == 'paste_new_data':
      b = self.binding(op[2])
      if b is not None:
        self.vars[op[1]].PasteBindingWithNewData(b, op[3])
    elif k == 'condition':
      self.nodes[op[1]].condition = self.binding(op[2]) if op[2] is not None else None
    else:
      raise ValueError(op)

  def query(self, q):
    k = q[0]
    if k == 'has':
      bs = [self.binding(r) for r in q[2]]
      if any(b is None for b in bs):
        return None
      return self.nodes[q[1]].HasCombination(bs)
    if k == 'can':
      bs = [self.binding(r) for r in q[2]]
      if any(b is None for b in bs):
        return None
      return self.nodes[q[1]].CanHaveCombination(bs)
    if k == 'visible':
      b = self.binding(q[1])
      return None if b is None else b.IsVisible(self.nodes[q[2]])
    if k == 'filter':
      return sorted(b.data for b in self.vars[q[1]].Filter(self.nodes[q[2]], True))
    if k == 'reach':
      return self.p.is_reachable(src=self.nodes[q[1]], dst=self.nodes[q[2]])
    raise ValueError(q)


def gen_history(rnd, length):
  ops = [('node',), ('node',), ('var',)]
  nn, nv = 2, 1
  known = []
  for _ in range(length):
    r = rnd.random()
    ref = lambda: rnd.choice(known) if known and rnd.random() < 0.9 else (rnd.randrange(nv), rnd.choice(DATA))
    refs = lambda: [ref() for _ in range(rnd.choice([0, 0, 1, 1, 2]))]
    node = lambda: rnd.randrange(nn)
    if r < 0.10 and nn < 6:
      ops.append(('node',)); nn += 1
    elif r < 0.16 and nn < 6:
      ops.append(('connect_new', node())); nn += 1
    elif r < 0.30:
      ops.append(('connect', node(), node()))
    elif r < 0.36 and nv < 4:
      ops.append(('var',)); nv += 1
    elif r < 0.44 and any(o[0] == 'add_binding' for o in ops):
      # the same data bound again at the same node with a different source set
      prev = rnd.choice([o for o in ops if o[0] == 'add_binding'])
      ops.append(('add_binding', prev[1], prev[2], refs(), prev[4]))
    elif r < 0.50:
      ops.append(('add_binding', rnd.randrange(nv), rnd.choice(DATA), refs(), node()))
      known.append((ops[-1][1], ops[-1][2]))
    elif r < 0.56:
      ops.append(('add_origin', ref(), node(), refs()))
    elif r < 0.62:
      ops.append(('paste_binding', rnd.randrange(nv), ref(), rnd.choice([None, node()]), refs()))
      known.append((ops[-1][1], ops[-1][2][1]))
    elif r < 0.66:
      ops.append(('paste_variable', rnd.randrange(nv), rnd.randrange(nv), rnd.choice([None, node()]), refs()))
    elif r < 0.69 and nv < 4:
      ops.append(('assign_new', rnd.randrange(nv), rnd.choice([None, node()]))); nv += 1
    elif r < 0.72:
      ops.append(('paste_new_data', rnd.randrange(nv), ref(), rnd.choice(DATA)))
      known.append((ops[-1][1], ops[-1][3]))
    elif r < 0.78:
      ops.append(('condition', node(), rnd.choice([None, ref(), ref()])))
    else:
      qk = rnd.choice(['has', 'has', 'visible', 'filter', 'can'])
      if qk in ('has', 'can'):
        ops.append(('Q', (qk, node(), [ref() for _ in range(rnd.choice([1, 1, 2]))])))
      elif qk == 'visible':
        ops.append(('Q', ('visible', ref(), node())))
      else:
        ops.append(('Q', ('filter', rnd.randrange(nv), node())))
  return ops


def gen_structured(rnd):
  """Build phase (chain + extra edges incl. back edges, bindings, conditions), then a burst of
  queries with no mutation in between: exercises the caches of ONE solver lifetime."""
  nn = rnd.randrange(3, 8)
  nv = rnd.randrange(1, 4)
  ops = [('node',) for _ in range(nn)] + [('var',) for _ in range(nv)]
  for i in range(nn - 1):
    if rnd.random() < 0.85:
      ops.append(('connect', i, i + 1))
  for _ in range(rnd.randrange(0, 4)):
    a, b = rnd.randrange(nn), rnd.randrange(nn)
    ops.append(('connect', a, b))          # forward skip, back edge or self edge
  known = []
  for _ in range(rnd.randrange(2, 7)):
    v, d = rnd.randrange(nv), rnd.choice(DATA + ['C'])
    srcs = [rnd.choice(known)] if known and rnd.random() < 0.3 else []
    ops.append(('add_binding', v, d, srcs, rnd.randrange(nn)))
    known.append((v, d))
  if rnd.random() < 0.3 and known:
    ops.append(('condition', rnd.randrange(nn), rnd.choice(known)))
  for burst in range(rnd.choice([1, 1, 2])):
    for _ in range(rnd.randrange(2, 7)):
      qk = rnd.choice(['visible', 'visible', 'has', 'filter'])
      if qk == 'visible':
        ops.append(('Q', ('visible', rnd.choice(known), rnd.randrange(nn))))
      elif qk == 'has':
        ops.append(('Q', ('has', rnd.randrange(nn), [rnd.choice(known) for _ in range(rnd.choice([1, 2]))])))
      else:
        ops.append(('Q', ('filter', rnd.randrange(nv), rnd.randrange(nn))))
    if burst == 0:
      # one mutation between two bursts
      r = rnd.random()
      if r < 0.5:
        ops.append(('connect', rnd.randrange(nn), rnd.randrange(nn)))
      else:
        v, d = rnd.randrange(nv), rnd.choice(DATA + ['C'])
        ops.append(('add_binding', v, d, [], rnd.randrange(nn)))
        known.append((v, d))
  return ops


def main():
  mode, repo = sys.argv[1], sys.argv[2]
  payload = json.loads(sys.stdin.read() or '{}')
  tier = payload.get('tier', 'quick')
  rnd = random.Random(payload.get('seed', 0))
  cfg = common.load_cfg(repo)
  violations = []
  nq = 0
  nh = 40000 if tier == 'quick' else 400000
  for h in range(nh):
    ops = gen_structured(rnd) if h % 2 else gen_history(rnd, rnd.choice([6, 10, 16, 24]))
    live = World(cfg)
    log = []
    since = []      # the queries asked since the last mutation (the lifetime of the current solver)
    bad = False
    for op in ops:
      if op[0] != 'Q':
        live.apply(op)
        log.append(op)
        since = []
        continue
      q = op[1]
      got = live.query(q)
      if got is None:
        continue
      nq += 1
      again = live.query(q)
      replica = World(cfg)
      for o in log:
        replica.apply(o)
      want = replica.query(q)
      if got != want or again != got:
        # Is the difference explained by the queries asked before it in the SAME solver lifetime?  A fresh replica that is asked
        # the same queries in the same order then agrees with the long-lived Program: query-order dependence inside one solver
        # (known finding F19), not an answer that survived a mutation.
        replica2 = World(cfg)
        for o in log:
          replica2.apply(o)
        for q0 in since:
          replica2.query(q0)
        same_order = replica2.query(q)
        if again == got and same_order == got and since:
          if not any(v.get('kind') == 'query-order-dependent' for v in violations):
            violations.append(dict(
                kind='query-order-dependent',
                what='query %r answers %r after the queries %r were asked, but %r when asked first on the same graph (no mutation in between; a fresh Program '
                     'asked in the same order agrees with the long-lived one)' % (q, got, since, want),
                history=[list(o) for o in ops[:ops.index(op) + 1]]))
          since.append(q)
          continue
        if len(violations) < 10:
          violations.append(dict(
              kind='stale-answer', what='query %r on the long-lived Program = %r (asked again: %r) but a replica rebuilt from the %d mutations answers %r' % (
                  q, got, again, len(log), want),
              history=[list(map(lambda x: x, o)) for o in ops[:ops.index(op) + 1]]))
        bad = True
        break
      since.append(q)
    if bad and len(violations) >= 10:
      break
  print(json.dumps(dict(
      violations=violations,
      bounded=[dict(function='cfg.Program / CFGNode / Variable / Binding Python API (compiled extension)',
                    bound='%d random histories (half: <=24 interleaved operations on <=6 nodes, <=4 variables, 2 data values, conditions, pastes; half: a built graph of <=7 nodes with back edges and <=6 bindings followed by bursts of <=6 queries without mutation), every query compared with a replica rebuilt from the mutation log and asked twice' % nh,
                    cases=nq)],
      spec_validation=[],
      counts=dict(histories=nh, queries=nq)), default=str))


if __name__ == '__main__':
  main()
