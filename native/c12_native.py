"""Native sweep for C12 (third sentence): eq/hash law over generated pytd type nodes."""
import itertools
import json
import os
import sys

sys.path.insert(0, os.path.dirname(os.path.abspath(__file__)))
import common  # pylint: disable=g-import-not-at-top


STUBS = [
    """
from typing import Any, Callable, Generic, List, Optional, Tuple, TypeVar, Union
T = TypeVar('T')
x: int
y: Union[int, str, None]
def f(a: int, b: str = ..., *args: int, **kw: str) -> List[Tuple[int, ...]]: ...
def g(a: Callable[[int], str]) -> Optional[T]: ...
class A(Generic[T]):
  LIMIT: int
  def m(self, v: T) -> 'A[T]': ...
  class Inner:
    LIMIT: int
    NAME: str
    class Deep:
      FLAG: bool
class B(A[int]):
  attr: A.Inner
  deep: A.Inner.Deep
""",
    """
import enum
from typing import Literal, overload
class Color(enum.Enum):
  RED: int
  BLUE: int
class Outer:
  class Mode(enum.Enum):
    ON: int
    OFF: int
  mode: Literal[Outer.Mode.ON]
@overload
def h(x: int) -> int: ...
@overload
def h(x: str) -> str: ...
z: Literal[Color.RED, Color.BLUE]
""",
    """
from typing import Callable, Dict, List, Optional, Tuple, Union
class Node: ...
class Leaf(Node): ...
a: Optional[List[Node]]
b: Union[Tuple[Node, int], Dict[str, Leaf], None]
c: Callable[[Node], Optional[Leaf]]
def walk(n: Optional[List[Node]], f: Callable[[Leaf], Node] = ...) -> Union[List[Leaf], Tuple[Node, ...]]: ...
class Tree:
  kids: Optional[List['Tree']]
  def find(self, k: Union[Node, List[Node]]) -> Optional[Dict[str, List[Leaf]]]: ...
""",
]


def roundtrip(repo, tier, violations):
  """First two sentences of C12 (bounded): encode -> decode gives equal declarations, re-encoding gives
  the same bytes, and the bytes do not depend on which names were looked up before pickling."""
  import logging  # pylint: disable=g-import-not-at-top
  logging.disable(logging.CRITICAL)
  import corpus  # pylint: disable=g-import-not-at-top
  from pytype import config, io, load_pytd  # pylint: disable=g-import-not-at-top
  from pytype.imports import pickle_utils  # pylint: disable=g-import-not-at-top
  from pytype.pytd import pytd, pytd_utils, serialize_ast, visitors  # pylint: disable=g-import-not-at-top
  options = config.Options.create(python_version=(3, 12))
  loader = load_pytd.create_loader(options)

  def viol(**kw):
    if len(violations) < 10:
      violations.append(kw)

  def exercise_lookups(ast):
    """Resolve every name through the unit and through every (nested) class: fills lookup caches."""
    def walk(cls):
      for m in list(cls.methods) + list(cls.constants) + list(cls.classes):
        try:
          cls.Lookup(m.name)
        except KeyError:
          pass
      for c in cls.classes:
        walk(c)
    for item in list(ast.constants) + list(ast.functions) + list(ast.classes) + list(ast.aliases):
      try:
        ast.Lookup(item.name)
      except KeyError:
        pass
    for c in ast.classes:
      walk(c)

  n = 0

  def check(name, make_ast):
    nonlocal n
    try:
      ast0 = make_ast()
      data0 = pickle_utils.Serialize(ast0, src_path='m.py', metadata=[])
    except Exception:  # pylint: disable=broad-except
      return   # cannot be exported at all: outside the domain
    n += 1
    try:
      ast1 = make_ast()
      exercise_lookups(ast1)
      data1 = pickle_utils.Serialize(ast1, src_path='m.py', metadata=[])
      if data1 != data0:
        viol(kind='history-dependent-bytes', what='%s: %d bytes after name lookups vs %d bytes without' % (name, len(data1), len(data0)), stub=name)
      dec = pickle_utils.DecodeAst(data1)
      if pickle_utils.Encode(dec) != data1:
        viol(kind='not-byte-stable', what='%s: Encode(DecodeAst(data)) differs from data' % name, stub=name)
      if pickle_utils.Serialize(dec.ast, src_path='m.py', metadata=[]) != data1:
        viol(kind='not-byte-stable', what='%s: Serialize(DecodeAst(data).ast) differs from data' % name, stub=name)
      ref = make_ast()
      ref = serialize_ast.SerializeAst(ref, src_path='m.py', metadata=[]).ast
      if not pytd_utils.ASTeq(dec.ast, ref):
        viol(kind='decode-differs', what='%s: decoded declarations differ from the canonically ordered original' % name, stub=name)
      exercise_lookups(dec.ast)   # the decoded unit must be usable: lookups return nodes
      for c in dec.ast.classes:
        for m in list(c.constants) + list(c.classes):
          got = c.Lookup(m.name)
          if not isinstance(got, (pytd.Constant, pytd.Class, pytd.Function, pytd.Alias)):
            viol(kind='decode-differs', what='%s: %s.Lookup(%r) on the decoded unit returns a %s' % (name, c.name, m.name, type(got).__name__), stub=name)
      pytd_utils.Print(dec.ast)
    except Exception as e:  # pylint: disable=broad-except
      viol(kind='roundtrip-crash', what='%s: %s: %s' % (name, type(e).__name__, str(e)[:200]), stub=name)

  for i, src in enumerate(STUBS):
    # the same stub exported as a plain module, as a sub-module of a package and as a package's __init__ (renamed on export)
    for mn in ('m%d' % i, 'pkg.m%d' % i, 'pkg%d.__init__' % i):
      check('stub%d as %s' % (i, mn), lambda src=src, mn=mn: serialize_ast.SourceToExportableAst(mn, src, loader))
  progs = corpus.load(repo, stride=25 if tier == 'quick' else 4)
  for name, src in progs:
    try:
      ret = io.generate_pyi_ast(src, options, loader)
    except Exception:  # pylint: disable=broad-except
      continue
    check(name, lambda ret=ret: serialize_ast.PrepareForExport('m', ret.ast, loader))
    check(name + ' as package', lambda ret=ret: serialize_ast.PrepareForExport('genpkg.__init__', ret.ast, loader))
    if len(violations) >= 10:
      break
  return [dict(function='pickle_utils.Serialize / DecodeAst / Encode, serialize_ast.SerializeAst (msgspec round trip)',
               bound='%d stubs (hand-written stubs with nested classes/enums/literals/overloads + stubs emitted for the upstream test snippets); '
                     'decoded == canonical original, Encode(Decode(b)) == b, Serialize(Decode(b).ast) == b, bytes independent of earlier name lookups' % n,
               cases=n)]


def main():
  mode, repo = sys.argv[1], sys.argv[2]
  payload = json.loads(sys.stdin.read() or '{}')
  tier = payload.get('tier', 'quick')
  common.load_cfg(repo)
  from pytype.pytd import pytd  # pylint: disable=g-import-not-at-top

  base = [pytd.NamedType('A'), pytd.NamedType('B'), pytd.ClassType('A'), pytd.ClassType('B'),
          pytd.LateType('A'), pytd.AnythingType(), pytd.NothingType(),
          pytd.TypeParameter('T'), pytd.TypeParameter('T', scope='f'), pytd.ParamSpec('P')]
  lits = [pytd.Literal(v) for v in (0, 1, False, True, 'a', '1', '', 2)]
  lits += [pytd.Literal(pytd.Constant('E.x', pytd.NamedType('E')))]
  lvl1 = list(base) + lits
  small = base[:4] + lits[:4]
  for a, b in itertools.permutations(small, 2):
    lvl1.append(pytd.UnionType((a, b)))
  for a, b in itertools.permutations(base[:3], 2):
    lvl1.append(pytd.IntersectionType((a, b)))
  for a, b, c in itertools.permutations(base[:4], 3):
    lvl1.append(pytd.UnionType((a, b, c)))
  for x in small:
    lvl1.append(pytd.GenericType(pytd.NamedType('list'), (x,)))
    lvl1.append(pytd.GenericType(pytd.ClassType('list'), (x,)))
    lvl1.append(pytd.TupleType(pytd.NamedType('tuple'), (x, base[0])))
    lvl1.append(pytd.CallableType(pytd.NamedType('typing.Callable'), (x, base[0])))
    lvl1.append(pytd.Annotated(x, ("'m'",)))
  lvl1.append(pytd.UnionType((pytd.UnionType((base[0], base[1])), base[2])))
  lvl1.append(pytd.UnionType((base[0], pytd.UnionType((base[1], base[2])))))
  nodes = lvl1
  if tier == 'thorough':
    u = [n for n in lvl1 if isinstance(n, pytd.UnionType)][:30]
    for a, b in itertools.permutations(u, 2):
      nodes.append(pytd.UnionType((a, b)))
      nodes.append(pytd.GenericType(pytd.NamedType('dict'), (a, b)))
  violations = []
  pairs = 0
  equal_pairs = 0
  for a in nodes:
    for b in nodes:
      pairs += 1
      try:
        e = (a == b)
      except Exception as ex:  # pylint: disable=broad-except
        violations.append(dict(kind='eq-raises', what='%r == %r raised %r' % (a, b, ex)))
        continue
      if e:
        equal_pairs += 1
        if hash(a) != hash(b):
          if len(violations) < 20:
            violations.append(dict(kind='eq-hash', what='%r == %r but hash %d != %d' % (a, b, hash(a), hash(b)),
                                   a=repr(a), b=repr(b)))
        elif len({a, b}) != 1 and len(violations) < 20:
          violations.append(dict(kind='dedup', what='set keeps two equal nodes %r and %r' % (a, b)))
  rt = roundtrip(repo, tier, violations)
  print(json.dumps(dict(
      violations=violations,
      bounded=rt + [dict(function='__eq__/__hash__ of all pytd type node classes (incl. msgspec-generated)',
                    bound='%d generated nodes (all Type classes; literals 0/1/False/True/str; unions in both orders; nesting depth<=%d), all ordered pairs' % (
                        len(nodes), 3 if tier == 'thorough' else 2), cases=pairs)],
      spec_validation=[],
      counts=dict(nodes=len(nodes), pairs=pairs, equal_pairs=equal_pairs))))


if __name__ == '__main__':
  main()
