"""Native sweep for C12 (third sentence): eq/hash law over generated pytd type nodes."""
import itertools
import json
import os
import sys

sys.path.insert(0, os.path.dirname(os.path.abspath(__file__)))
import common  # pylint: disable=g-import-not-at-top


def main():
  mode, repo = sys.argv[1], sys.argv[2]
  payload = json.loads(sys.stdin.read() or '{}')
  tier = payload.get('tier', 'quick')
  common.load_cfg(repo)
  from pytype.pytd import pytd  # pylint: disable=g-import-not-at-top

  base = [pytd.NamedType('A'), pytd.NamedType('B'), pytd.ClassType('A'), pytd.ClassType('B'),
          pytd.LateType('A'), pytd.AnythingType(), pytd.NothingType(),
          pytd.TypeParameter('T'), pytd.TypeParameter('T', scope='f'), pytd.ParamSpec('P')]
  lits = [pytd.Literal(v) for v in (0, 1, False, True, 'a', '1', '', 2)]
  lits += [pytd.Literal(pytd.Constant('E.x', pytd.NamedType('E')))]
  lvl1 = list(base) + lits
  small = base[:4] + lits[:4]
  for a, b in itertools.permutations(small, 2):
    lvl1.append(pytd.UnionType((a, b)))
  for a, b in itertools.permutations(base[:3], 2):
    lvl1.append(pytd.IntersectionType((a, b)))
  for a, b, c in itertools.permutations(base[:4], 3):
    lvl1.append(pytd.UnionType((a, b, c)))
  for x in small:
    lvl1.append(pytd.GenericType(pytd.NamedType('list'), (x,)))
    lvl1.append(pytd.GenericType(pytd.ClassType('list'), (x,)))
    lvl1.append(pytd.TupleType(pytd.NamedType('tuple'), (x, base[0])))
    lvl1.append(pytd.CallableType(pytd.NamedType('typing.Callable'), (x, base[0])))
    lvl1.append(pytd.Annotated(x, ("'m'",)))
  lvl1.append(pytd.UnionType((pytd.UnionType((base[0], base[1])), base[2])))
  lvl1.append(pytd.UnionType((base[0], pytd.UnionType((base[1], base[2])))))
  nodes = lvl1
  if tier == 'thorough':
    u = [n for n in lvl1 if isinstance(n, pytd.UnionType)][:30]
    for a, b in itertools.permutations(u, 2):
      nodes.append(pytd.UnionType((a, b)))
      nodes.append(pytd.GenericType(pytd.NamedType('dict'), (a, b)))
  violations = []
  pairs = 0
  equal_pairs = 0
  for a in nodes:
    for b in nodes:
      pairs += 1
      try:
        e = (a == b)
      except Exception as ex:  # pylint: disable=broad-except
        violations.append(dict(kind='eq-raises', what='%r == %r raised %r' % (a, b, ex)))
        continue
      if e:
        equal_pairs += 1
        if hash(a) != hash(b):
          if len(violations) < 20:
            violations.append(dict(kind='eq-hash', what='%r == %r but hash %d != %d' % (a, b, hash(a), hash(b)),
                                   a=repr(a), b=repr(b)))
        elif len({a, b}) != 1 and len(violations) < 20:
          violations.append(dict(kind='dedup', what='set keeps two equal nodes %r and %r' % (a, b)))
  print(json.dumps(dict(
      violations=violations,
      bounded=[dict(function='__eq__/__hash__ of all pytd type node classes (incl. msgspec-generated)',
                    bound='%d generated nodes (all Type classes; literals 0/1/False/True/str; unions in both orders; nesting depth<=%d), all ordered pairs' % (
                        len(nodes), 3 if tier == 'thorough' else 2), cases=pairs)],
      spec_validation=[],
      counts=dict(nodes=len(nodes), pairs=pairs, equal_pairs=equal_pairs))))


if __name__ == '__main__':
  main()
