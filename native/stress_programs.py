"""Hand-written stress programs for the C04 sweep: name collisions and many-element sets.

Ordinary test snippets rarely put two things into one set whose order could leak; these do:
same-named type variables / classes / functions, overrides and calls with several offending
parameters at once, unions with many members.  Data for a bounded sweep only.
"""

PROGRAMS = [
    ('stress:rebound-typevar', '''
from typing import TypeVar
T = TypeVar('T', bound=int)
def f(x: T) -> T:
  return x
T = TypeVar('T', bound=str)
def g(x: T) -> T:
  return x
del T
'''),
    ('stress:local-typevars', '''
from typing import TypeVar
def make_a():
  U = TypeVar('U', int, float)
  def a(x: U) -> U:
    return x
  return a
def make_b():
  U = TypeVar('U', str, bytes)
  def b(x: U) -> U:
    return x
  return b
a = make_a()
b = make_b()
'''),
    ('stress:same-named-classes', '''
def one():
  class Thing:
    def m(self): return 1
  return Thing()
def two():
  class Thing:
    def m(self): return "s"
  return Thing()
def three():
  class Thing:
    def m(self): return 1.5
  return Thing()
def pick(n):
  if n == 1: return one()
  if n == 2: return two()
  return three()
x = pick(__random__).m()
'''),
    ('stress:override-kwonly', '''
class A:
  def f(self, x, *, k0=0):
    return x
class B(A):
  def f(self, x, *, alpha, beta, gamma, delta, epsilon, zeta):
    return x
'''),
    ('stress:override-positional', '''
class A:
  def f(self, x):
    return x
class B(A):
  def f(self, x, alpha, beta, gamma, delta, epsilon, zeta):
    return x
'''),
    ('stress:override-missing-kwonly', '''
class A:
  def f(self, x, *, alpha, beta, gamma, delta, epsilon):
    return x
class B(A):
  def f(self, x):
    return x
'''),
    ('stress:many-unknown-keywords', '''
def f(x, *, k=0):
  return x
f(1, alpha=1, beta=2, gamma=3, delta=4, epsilon=5)
'''),
    ('stress:many-missing-parameters', '''
def f(alpha, beta, gamma, delta, epsilon, *, zeta, eta, theta):
  return alpha
f()
f(1)
'''),
    ('stress:typevar-unknown-keywords', '''
from typing import TypeVar
T = TypeVar("T", alpha=1, beta=2, gamma=3, delta=4)
'''),
    ('stress:abstract-methods', '''
import abc
class Base(abc.ABC):
  @abc.abstractmethod
  def alpha(self): ...
  @abc.abstractmethod
  def beta(self): ...
  @abc.abstractmethod
  def gamma(self): ...
  @abc.abstractmethod
  def delta(self): ...
  @abc.abstractmethod
  def epsilon(self): ...
class Half(Base):
  def alpha(self): return 1
x = Base()
y = Half()
'''),
    ('stress:big-union', '''
class A: pass
class B: pass
class C: pass
class D: pass
class E: pass
def f(n):
  if n == 0: return A()
  if n == 1: return B()
  if n == 2: return C()
  if n == 3: return D()
  if n == 4: return E()
  if n == 5: return 1
  if n == 6: return "s"
  if n == 7: return 1.5
  if n == 8: return b"b"
  return None
v = f(__random__)
w = [f(1), f(2), {f(3): f(4)}]
def g(x: int) -> str:
  return f(x)
'''),
    ('stress:many-attributes', '''
class K:
  def __init__(self, n):
    if n:
      self.alpha = 1
      self.beta = "b"
      self.gamma = 1.5
    else:
      self.alpha = "a"
      self.beta = 2
      self.delta = None
    self.epsilon = [self.alpha, self.beta]
k = K(__random__)
u = k.alpha
missing = k.zeta + k.eta + k.theta
'''),
    ('stress:same-named-functions', '''
def outer1():
  def inner(x: int) -> int: return x
  return inner
def outer2():
  def inner(x: str) -> str: return x
  return inner
def outer3():
  def inner(x: float) -> float: return x
  return inner
fs = [outer1(), outer2(), outer3()]
r = fs[__random__]("a")
'''),
    ('stress:generic-aliases', '''
from typing import Dict, List, Set, Tuple, TypeVar, Union
K = TypeVar('K')
V = TypeVar('V')
A1 = Union[List[K], Set[V]]
A2 = Union[Set[V], List[K]]
def f(x: A1[int, str]) -> A2[int, str]:
  return x
def g(x: A2[int, str]) -> A1[str, int]:
  return x
B = Dict[K, Union[Tuple[V, K], Tuple[K, V]]]
def h(x: B[int, str]): return x
'''),
    ('stress:annotated-mismatch-many', '''
from typing import Union
def f(a: int, b: str, c: float, d: bytes, e: list): pass
f("a", 1, "c", 2, 3)
x: Union[int, str, bytes, float] = None
y: Union[int, str, bytes, float] = []
'''),
    ('stress:protocol-missing-many', '''
from typing import Protocol
class P(Protocol):
  def alpha(self) -> int: ...
  def beta(self) -> int: ...
  def gamma(self) -> int: ...
  def delta(self) -> int: ...
class Impl:
  def alpha(self) -> int: return 1
def use(p: P): pass
use(Impl())
use(1)
'''),
    ('stress:dict-kwargs-splat', '''
def f(**kwargs): return kwargs
def g(alpha=1, beta=2, gamma=3, delta=4): return alpha
a = f(alpha=1, beta="b", gamma=1.5, delta=None, epsilon=b"e")
b = g(**a)
c = g(**{"zeta": 1, "eta": 2, "theta": 3})
'''),
    ('stress:bundled-enum-union', '''
import enum
def pick(a: enum.Flag, b: enum.IntFlag, c):
  if c: return a
  return b
class Colour(enum.IntFlag):
  RED = 1
  BLUE = 2
def either(a: enum.Flag, c):
  return a if c else Colour.RED
class Kind(enum.Enum):
  A = 1
  B = "b"
v = Kind.A.value
'''),
    ('stress:bundled-collections', '''
import collections
Point = collections.namedtuple("Point", ["x", "y"])
def f(c):
  d = collections.OrderedDict()
  e = collections.defaultdict(list)
  if c: return d
  return e
q = collections.deque([1, "a"])
p = Point(1, "s")
'''),
    ('stress:bundled-attr', '''
import attr
@attr.s
class A:
  x = attr.ib(default=1)
  y = attr.ib(type=str, default="s")
a = A()
b = attr.evolve(a, x=2) if __random__ else a
'''),
    ('stress:hidden-base-with-many-bases', '''
class Alpha: pass
class Bravo: pass
class Charlie: pass
class Delta: pass
class Echo: pass
def make():
  class Hidden(Alpha, Bravo, Charlie, Delta, Echo):
    def m(self): return 1
  return Hidden
class C(make()):
  pass
def use(x: C):
  return x.m()
use(1)
c = C()
'''),
    ('stress:typeddict-missing-extra-keys', '''
from typing import TypedDict
class A(TypedDict):
  alpha: int
  beta: int
  gamma: int
  delta: int
def f(x: A): pass
f({"zeta": 1, "eta": 2, "theta": 3})
f({"alpha": 1})
'''),
    ('stress:incomplete-match-enum', '''
import enum
class Color(enum.Enum):
  ALPHA = 1
  BETA = 2
  GAMMA = 3
  DELTA = 4
  EPSILON = 5
def f(c: Color):
  match c:
    case Color.ALPHA:
      return 1
def g(c: Color):
  match c:
    case Color.ALPHA | Color.BETA:
      return 1
    case Color.GAMMA:
      return 2
'''),
    ('stress:multiple-inheritance-attrs', '''
class A:
  x = 1
  def m(self): return 1
class B:
  x = "s"
  def m(self): return "s"
class C:
  x = 1.5
  def m(self): return 1.5
class D(A, B, C): pass
class E(C, B, A): pass
def f(n):
  return D() if n else E()
v = f(__random__).x
w = f(__random__).m()
'''),
    # placeholder names that pytype invents (here: a NewType without a literal name) must be numbered per analysis, not per process
    ('stress:newtype-nonliteral-a', '''
from typing import NewType
def expects_str(x: str) -> None:
  pass
def label() -> str:
  return "Dyn"
Tagged = NewType(label(), int)
expects_str(NewType(label(), int)(3))
ok = Tagged(1)
'''),
    ('stress:newtype-nonliteral-b', '''
import typing
def n() -> str:
  return "X"
def takes_bytes(x: bytes) -> None:
  pass
A = typing.NewType(n(), int)
B = typing.NewType(n(), str)
takes_bytes(B("s"))
takes_bytes(A(1))
'''),
]
