"""Native sweep for C03: a directive on the reported line removes exactly that error (through the real VM)."""
import json
import os
import random
import sys

sys.path.insert(0, os.path.dirname(os.path.abspath(__file__)))
import common  # pylint: disable=g-import-not-at-top

TEMPLATES = [
    ['x{i} = undefined_name{i}'],
    ['y{i} = (1).foo{i}'],
    ['z{i} = 1 + "a"'],
    ['def f{i}(a: int): pass', 'f{i}("s")'],
    ['def g{i}(a: "Undefined{i}"): pass'],
    ['q{i} = {{}}.bar{i}'],
    ['k{i} = {i}'],
    ['def h{i}(a): return a', 'h{i}()'],
    ['w{i} = [].nope{i}'],
    ['class C{i}: pass', 'C{i}().missing{i}'],
]


IMPLICIT_RETURN_SHAPES = [
    # a function with a return annotation and an implicit `return None`; its last line closes a multi-line construct
    'def f(x) -> int:\n  g(x,\n    x)\n',
    'def f(x) -> int:\n  y = x[\n    0]\n',
    'def f(x) -> int:\n  y = (x <\n    1)\n',
    'def f(x) -> int:\n  y = [\n    x]\n',
    'def f(x) -> int:\n  y = {\n    1: x}\n',
    'def f(x) -> int:\n  class A(dict(\n    a=x).__class__): pass\n',
    'def f(x) -> int:\n  class A(list[\n    int]): pass\n',
    'def f(x) -> int:\n  if g(x,\n    x): pass\n',
    'def f(x) -> int:\n  for i in g(x,\n    x): pass\n',
    'def f(x) -> int:\n  with g(x,\n    x): pass\n',
    'def f(x) -> int:\n  while g(x,\n    x): break\n',
    'def f(x) -> int:\n  match x:\n    case y if isinstance(\n      y, str): pass\n',
    'def f(x) -> int:\n  y = g(x)(\n    x)(\n    x)\n',
    'def f(x) -> int:\n  y = g(x\n  ).a(\n  ).b()\n',
    'def f(x) -> int:\n  @g(x,\n    x)\n  def h(): pass\n',
    'def f(x) -> int:\n  y = lambda: g(\n    x)\n',
    'def f(x) -> int:\n  assert g(x,\n    x)\n',
    'def f(x) -> int:\n  del x[\n    0]\n',
]


def stmt_start(src, line):
  """First line of the innermost simple statement (or compound-statement header) that contains `line`."""
  import ast  # pylint: disable=g-import-not-at-top
  best = None
  try:
    tree = ast.parse(src)
  except SyntaxError:
    return line
  for node in ast.walk(tree):
    if isinstance(node, ast.stmt) and node.lineno <= line <= (node.end_lineno or node.lineno):
      if isinstance(node, (ast.FunctionDef, ast.AsyncFunctionDef, ast.ClassDef, ast.If, ast.For, ast.While, ast.With, ast.Try, ast.Match)):
        # header only
        body0 = node.body[0].lineno if node.body else node.lineno
        if line >= body0 and not (node.body and node.body[0].lineno == node.lineno):
          continue
      if best is None or node.lineno >= best:
        best = node.lineno
  return best or line


def stmt_range(src, line):
  """(first, last) line of the innermost statement / compound-statement header containing `line`."""
  import ast  # pylint: disable=g-import-not-at-top
  try:
    tree = ast.parse(src)
  except SyntaxError:
    return [(line, line)]
  best = None
  cands = []
  for node in ast.walk(tree):
    if not isinstance(node, ast.stmt):
      continue
    lo, hi = node.lineno, node.end_lineno or node.lineno
    if isinstance(getattr(node, 'body', None), list) and node.body:
      # compound statement: its header (all expressions outside the nested blocks)
      hi = node.lineno
      for field, val in ast.iter_fields(node):
        if field in ('body', 'orelse', 'handlers', 'finalbody', 'cases', 'decorator_list'):
          continue    # (each decorator is a logical line of its own: the signature starts at `def` / `class`)
        for v in (val if isinstance(val, list) else [val]):
          if isinstance(v, ast.AST):
            for sub in ast.walk(v):
              if getattr(sub, 'end_lineno', None):
                hi = max(hi, sub.end_lineno)
              if getattr(sub, 'lineno', None):
                lo = min(lo, sub.lineno)
      b0 = node.body[0] if not isinstance(node, ast.Match) else None
      if b0 is not None and b0.lineno <= hi:
        hi = max(hi, b0.end_lineno or b0.lineno)      # `header: body` on one line
    if lo <= line <= hi:
      cands.append((lo, hi))
      if best is None or lo >= best[0]:
        best = (lo, hi)
  if best is None:
    # e.g. a `case` header inside match
    for node in ast.walk(tree):
      if isinstance(node, ast.match_case):
        lo = node.pattern.lineno
        hi = node.body[0].lineno - 1 if node.body[0].lineno > lo else (node.body[0].end_lineno or lo)
        if node.guard is not None:
          hi = max(hi, node.guard.end_lineno)
        if lo <= line <= hi:
          best = (lo, hi)
          cands.append((lo, hi))
  return cands or [(line, line)]


def explain(base, got, ename, line, is_ignore, S, E):
  """Classifies a deviation.  Known (by design, F6/F9): a directive inside a multi-line statement [S, E] acts on
  the whole logical line range -- it also silences matching errors on the other lines of the statement, and it may
  move an implicit-return bad-return-type error of the enclosing function into the statement's range.  The error the
  directive was written for must be gone in any case; anything else is `other`."""
  import collections  # pylint: disable=g-import-not-at-top
  b, g = collections.Counter(base), collections.Counter(got)
  removed, added = b - g, g - b
  matches = lambda e: is_ignore or e[0] == ename
  targets = [e for e in b if e[1] == line and matches(e)]
  if any(g[t] for t in targets):
    return 'other'                       # the directive did not silence the error it was written for
  if S == E:
    return 'other'
  moved_to = [e for e in added.elements()]
  if any(not (e[0] == 'bad-return-type' and S <= e[1] <= E) for e in moved_to):
    return 'other'
  moved_from = [e for e in removed.elements() if e[0] == 'bad-return-type' and e not in targets]
  if len(moved_to) > len(moved_from):
    return 'other'
  rest = list((removed - collections.Counter(targets) ).elements())
  for e in moved_from[:len(moved_to)]:
    rest.remove(e)
  rest = [e for e in rest if e not in targets]
  if any(not (S <= e[1] <= E and matches(e)) for e in rest):
    return 'other'
  return 'F6-directive-acts-on-the-whole-multi-line-statement'


def strip_marker_comments(src):
  """Removes the `# error-name[e]` marker comments of CheckWithErrors snippets (keeps directives and type comments)."""
  import io as _io  # pylint: disable=g-import-not-at-top
  import tokenize  # pylint: disable=g-import-not-at-top
  lines = src.split('\n')
  try:
    for tok in tokenize.generate_tokens(_io.StringIO(src).readline):
      if tok.type == tokenize.COMMENT and 'type:' not in tok.string and 'pytype:' not in tok.string:
        r, c = tok.start
        lines[r - 1] = lines[r - 1][:c].rstrip()
  except (tokenize.TokenError, IndentationError, SyntaxError):
    return src
  return '\n'.join(lines)


def corpus_sweep(repo, tier, analyse, violations):
  """Every error of realistic programs (multi-line statements, decorated functions, implicit returns) x trailing directive."""
  import corpus  # pylint: disable=g-import-not-at-top
  progs = [('shape%d' % i, 'def g(*a): return a\n' + s) for i, s in enumerate(IMPLICIT_RETURN_SHAPES)]
  # lines that the source pre-processing (preprocess.augment_annotations: bare annotations in function bodies get ` = ...`)
  # rewrites before the directives are parsed: non-ASCII identifiers, `#` inside strings, several statements on one line
  progs += [('rewrite%d' % i, s_) for i, s_ in enumerate([
      'def f():\n  größenmaß: Undefined1\n  return größenmaß\n',
      'def f():\n  名前: Undefined2\n  return 名前\n',
      'def total(values):\n  результат: list[int, str]\n  результат = values\n  return результат\n',
      'def f():\n  ключ: "Undefined3"\n  x: Undefined4\n  return x, ключ\n',
      'def f(a):\n  café: Undefined5; b = a.nope\n  return b\n',
      'def f():\n  s = "# not a comment"; ü: Undefined6\n  return s.nope\n',
      'class K:\n  def m(self):\n    日本: Undefined7\n    self.q: Undefined8\n    return 1\n',
  ])]
  progs += [(n_, strip_marker_comments(s_)) for n_, s_ in corpus.load(repo, stride=30 if tier == 'quick' else 3)]
  checks = 0
  nprog = 0
  for name, src in progs:
    if len(violations) >= 12:
      break
    lines = src.split('\n')
    try:
      base, base_pyi = analyse(src)
    except Exception:  # pylint: disable=broad-except
      continue
    if not base:
      continue
    nprog += 1
    for (ename, line) in sorted(set(base)):
      if line is None or line < 1 or line > len(lines) or '#' in lines[line - 1] or lines[line - 1].rstrip().endswith('\\'):
        continue
      if lines[line - 1].count('"""') % 2 or lines[line - 1].count("'''") % 2:
        continue
      for directive in ('# pytype: disable=%s' % ename, '# type: ignore'):
        new_lines = list(lines)
        new_lines[line - 1] += '  ' + directive
        new_src = '\n'.join(new_lines)
        try:
          compile(new_src, '<d>', 'exec')
          got, pyi = analyse(new_src)
        except Exception:  # pylint: disable=broad-except
          continue
        checks += 1
        if directive.startswith('# type'):
          want = [x for x in base if x[1] != line]
        else:
          want = [x for x in base if x != (ename, line)]
        if got == want:
          continue
        cause = 'other'
        for S, E in stmt_range(src, line):
          cause = explain(base, got, ename, line, directive.startswith('# type'), S, E)
          if cause != 'other':
            break
        if cause != 'other' and any(v.get('cause') == cause for v in violations):
          continue
        violations.append(dict(kind='directive', cause=cause, program_name=name, directive=directive.split('=')[0], line=line,
                               what='adding %r to line %d of %s: errors %s -> %s, expected %s' % (directive, line, name, base, got, want),
                               program=new_src))
  return [dict(function='directive handling through the VM on realistic programs',
               bound='%d programs with errors (upstream functional-test snippets + %d implicit-return shapes whose last line closes a multi-line construct); '
                     'every reported error x {trailing disable, trailing type: ignore}' % (nprog, len(IMPLICIT_RETURN_SHAPES)), cases=checks)]


def main():
  mode, repo = sys.argv[1], sys.argv[2]
  payload = json.loads(sys.stdin.read() or '{}')
  tier = payload.get('tier', 'quick')
  rnd = random.Random(payload.get('seed', 0))
  common.load_cfg(repo)
  from pytype import config, io  # pylint: disable=g-import-not-at-top
  opts = config.Options.create(python_version=(3, 12))

  def analyse(src):
    a, pyi = io.generate_pyi(src, opts)
    errs = sorted((e.name, e.line) for e in a.context.errorlog.unique_sorted_errors())
    return errs, pyi

  violations = []
  known = []
  runs = 0
  checks = 0
  nprog = 6 if tier == 'quick' else 120
  for pi in range(nprog):
    lines = []
    n = rnd.randint(4, 7)
    picks = [rnd.randrange(len(TEMPLATES)) for _ in range(n)]
    if pi % 2 == 0:
      picks[0] = rnd.choice([0, 1, 2, 5, 8])      # an error on line 1
      if 4 not in picks:
        picks[-1] = 4                              # and a string annotation somewhere below
    for i, t in enumerate(picks):
      lines.extend(l.format(i=i) for l in TEMPLATES[t])
    src = '\n'.join(lines) + '\n'
    try:
      base, base_pyi = analyse(src)
    except Exception as e:  # pylint: disable=broad-except
      violations.append(dict(kind='vm-crash', what=repr(e), program=src))
      continue
    runs += 1
    for (name, line) in base:
      if line is None or line < 1 or line > len(lines):
        continue
      for directive in ('# pytype: disable=%s' % name, '# type: ignore'):
        new_lines = list(lines)
        new_lines[line - 1] += '  ' + directive
        try:
          got, pyi = analyse('\n'.join(new_lines) + '\n')
        except Exception as e:  # pylint: disable=broad-except
          violations.append(dict(kind='vm-crash', what=repr(e), program='\n'.join(new_lines)))
          continue
        runs += 1
        checks += 1
        if directive.startswith('# type'):
          want = [x for x in base if x[1] != line]
        else:
          want = [x for x in base if x != (name, line)]
        if got != want and len(violations) < 10:
          violations.append(dict(
              kind='directive', what='adding %r to line %d: errors %s -> %s, expected %s' % (directive, line, base, got, want),
              program='\n'.join(new_lines)))
        elif pyi != base_pyi and len(violations) < 10:
          violations.append(dict(kind='directive-stub', what='adding %r to line %d changed the inferred stub' % (directive, line),
                                 program='\n'.join(new_lines)))
      # stand-alone disable ... enable around the line
      new_lines = lines[:line - 1] + ['# pytype: disable=%s' % name, lines[line - 1], '# pytype: enable=%s' % name] + lines[line:]
      try:
        got, _ = analyse('\n'.join(new_lines) + '\n')
        runs += 1
        checks += 1
        shift = lambda l: l if l < line else (l + 1 if l == line else l + 2)
        want = sorted((nm, shift(l)) for (nm, l) in base if (nm, l) != (name, line))
        if got != want and len(violations) < 10:
          violations.append(dict(kind='directive-range', what='disable/enable of %s around line %d: got %s expected %s' % (name, line, got, want),
                                 program='\n'.join(new_lines)))
      except Exception as e:  # pylint: disable=broad-except
        violations.append(dict(kind='vm-crash', what=repr(e), program='\n'.join(new_lines)))
  extra = corpus_sweep(repo, tier, analyse, violations)
  print(json.dumps(dict(
      violations=violations,
      bounded=extra + [dict(function='directive handling through the VM (parser.py, Director, filter_error, ErrorLog)',
                    bound='%d random single-line-statement programs (10 error templates incl. string annotations, an error on line 1 in half of them); every reported error x {trailing disable, trailing type: ignore, stand-alone disable/enable}' % nprog,
                    cases=checks)],
      spec_validation=[],
      counts=dict(programs=nprog, vm_runs=runs, checks=checks))))


if __name__ == '__main__':
  main()
