"""Native sweep for C03: a directive on the reported line removes exactly that error (through the real VM)."""
import json
import os
import random
import sys

sys.path.insert(0, os.path.dirname(os.path.abspath(__file__)))
import common  # pylint: disable=g-import-not-at-top

TEMPLATES = [
    ['x{i} = undefined_name{i}'],
    ['y{i} = (1).foo{i}'],
    ['z{i} = 1 + "a"'],
    ['def f{i}(a: int): pass', 'f{i}("s")'],
    ['def g{i}(a: "Undefined{i}"): pass'],
    ['q{i} = {{}}.bar{i}'],
    ['k{i} = {i}'],
    ['def h{i}(a): return a', 'h{i}()'],
    ['w{i} = [].nope{i}'],
    ['class C{i}: pass', 'C{i}().missing{i}'],
]


def main():
  mode, repo = sys.argv[1], sys.argv[2]
  payload = json.loads(sys.stdin.read() or '{}')
  tier = payload.get('tier', 'quick')
  rnd = random.Random(payload.get('seed', 0))
  common.load_cfg(repo)
  from pytype import config, io  # pylint: disable=g-import-not-at-top
  opts = config.Options.create(python_version=(3, 12))

  def analyse(src):
    a, pyi = io.generate_pyi(src, opts)
    errs = sorted((e.name, e.line) for e in a.context.errorlog.unique_sorted_errors())
    return errs, pyi

  violations = []
  known = []
  runs = 0
  checks = 0
  nprog = 6 if tier == 'quick' else 120
  for pi in range(nprog):
    lines = []
    n = rnd.randint(4, 7)
    picks = [rnd.randrange(len(TEMPLATES)) for _ in range(n)]
    if pi % 2 == 0:
      picks[0] = rnd.choice([0, 1, 2, 5, 8])      # an error on line 1
      if 4 not in picks:
        picks[-1] = 4                              # and a string annotation somewhere below
    for i, t in enumerate(picks):
      lines.extend(l.format(i=i) for l in TEMPLATES[t])
    src = '\n'.join(lines) + '\n'
    try:
      base, base_pyi = analyse(src)
    except Exception as e:  # pylint: disable=broad-except
      violations.append(dict(kind='vm-crash', what=repr(e), program=src))
      continue
    runs += 1
    for (name, line) in base:
      if line is None or line < 1 or line > len(lines):
        continue
      for directive in ('# pytype: disable=%s' % name, '# type: ignore'):
        new_lines = list(lines)
        new_lines[line - 1] += '  ' + directive
        try:
          got, pyi = analyse('\n'.join(new_lines) + '\n')
        except Exception as e:  # pylint: disable=broad-except
          violations.append(dict(kind='vm-crash', what=repr(e), program='\n'.join(new_lines)))
          continue
        runs += 1
        checks += 1
        if directive.startswith('# type'):
          want = [x for x in base if x[1] != line]
        else:
          want = [x for x in base if x != (name, line)]
        if got != want and len(violations) < 10:
          violations.append(dict(
              kind='directive', what='adding %r to line %d: errors %s -> %s, expected %s' % (directive, line, base, got, want),
              program='\n'.join(new_lines)))
        elif pyi != base_pyi and len(violations) < 10:
          violations.append(dict(kind='directive-stub', what='adding %r to line %d changed the inferred stub' % (directive, line),
                                 program='\n'.join(new_lines)))
      # stand-alone disable ... enable around the line
      new_lines = lines[:line - 1] + ['# pytype: disable=%s' % name, lines[line - 1], '# pytype: enable=%s' % name] + lines[line:]
      try:
        got, _ = analyse('\n'.join(new_lines) + '\n')
        runs += 1
        checks += 1
        shift = lambda l: l if l < line else (l + 1 if l == line else l + 2)
        want = sorted((nm, shift(l)) for (nm, l) in base if (nm, l) != (name, line))
        if got != want and len(violations) < 10:
          violations.append(dict(kind='directive-range', what='disable/enable of %s around line %d: got %s expected %s' % (name, line, got, want),
                                 program='\n'.join(new_lines)))
      except Exception as e:  # pylint: disable=broad-except
        violations.append(dict(kind='vm-crash', what=repr(e), program='\n'.join(new_lines)))
  print(json.dumps(dict(
      violations=violations,
      bounded=[dict(function='directive handling through the VM (parser.py, Director, filter_error, ErrorLog)',
                    bound='%d random single-line-statement programs (10 error templates incl. string annotations, an error on line 1 in half of them); every reported error x {trailing disable, trailing type: ignore, stand-alone disable/enable}' % nprog,
                    cases=checks)],
      spec_validation=[],
      counts=dict(programs=nprog, vm_runs=runs, checks=checks))))


if __name__ == '__main__':
  main()
