"""Native sweep for C16: every clause of the property evaluated on real code objects
(CPython 3.12 standard-library sources + generated async/generator/try snippets) through the
real pyc.compile_src -> blocks.process_code pipeline.  Bounded stand-in / witness search."""
import glob
import json
import os
import sys

sys.path.insert(0, os.path.dirname(os.path.abspath(__file__)))
import common  # pylint: disable=g-import-not-at-top

STDLIB = '/root/.pyenv/versions/3.12.1/lib/python3.12'

SNIPPETS = [
    'def f(s, b):\n  try:\n    try:\n      s.bind()\n    except OSError:\n      raise RuntimeError()\n    if b is None:\n      return 1\n    x = "a" + 1\n    return "x"\n  except ValueError:\n    raise\n',
    'def g(s, b):\n  for i in s:\n    try:\n      try:\n        i()\n      except OSError:\n        continue\n      while b:\n        b -= 1\n      else:\n        return i\n    except ValueError:\n      break\n    finally:\n      s = None\n  return b and s or i\n',
    'def h(a):\n  with a:\n    try:\n      a()\n    except E:\n      return 1\n    if a: return 2\n    else: return 3\n',
    'async def f(xs):\n  async for x in xs:\n    print(x)\n  else:\n    return 1\n',
    'async def f(a):\n  async with a as b:\n    await b\n  return [y async for y in a]\n',
    'def g(it):\n  yield from it\n  x = yield 1\n  return x\n',
    'async def h(a):\n  try:\n    async for x in a:\n      if x: break\n      else: continue\n  finally:\n    await a\n',
    'def t(x):\n  try:\n    return x.y\n  except (KeyError, ValueError) as e:\n    raise RuntimeError() from e\n  except* TypeError:\n    pass\n  finally:\n    x = 1\n' .replace('  except* TypeError:\n    pass\n', ''),
    'def w(a, b):\n  with a as x, b as y:\n    while x:\n      for i in y:\n        if i: continue\n        elif x: break\n      else:\n        return 3\n  return (lambda q: q if q else None)(a)\n',
    'class C:\n  def m(self):\n    return [i for i in self if i] or {k: v for k, v in self} or {z for z in self}\n',
    'def m(x):\n  match x:\n    case [a, b]: return a\n    case {"k": v}: return v\n    case C(p=1) | C(p=2): return 0\n    case _: pass\n',
    'x = 1 if a else 2\nwhile True:\n  try:\n    break\n  except Exception:\n    continue\nassert x, "msg"\ndel x\n',
    'async def ag(a):\n  async for x in a:\n    yield x\n  await a\n  yield from_()\n'.replace('yield from_()', 'yield 2'),
]


def gen_program(rnd, depth=3):
  """A random (a)sync function with nested loops, try blocks, with blocks, comprehensions and jumps."""
  is_async = rnd.random() < 0.75

  def block(d, in_loop, ind):
    n = rnd.choice([1, 1, 2, 3])
    out = []
    for _ in range(n):
      out.extend(stmt(d, in_loop, ind))
    return out or [ind + 'pass']

  def stmt(d, in_loop, ind):
    kinds = ['expr', 'expr', 'assign', 'return', 'if']
    if in_loop:
      kinds += ['continue', 'break', 'continue']
    if d > 0:
      kinds += ['for', 'while', 'try', 'with', 'if', 'comp']
      if is_async:
        kinds += ['afor', 'afor', 'afor', 'awith', 'acomp', 'acomp', 'await']
    k = rnd.choice(kinds)
    I = ind + '  '
    if k == 'expr':
      return [ind + rnd.choice(['g(x)', 'x.m()', 'h()', 'yield x' if not is_async or rnd.random() < 0.3 else 'g(x)'])]
    if k == 'assign':
      return [ind + 'x = %s' % rnd.choice(['g(x)', 'x or y', '[x, y]', 'x if y else None'])]
    if k == 'return':
      return [ind + rnd.choice(['return x', 'return', 'raise E()'])]
    if k == 'continue':
      return [ind + 'if %s: continue' % rnd.choice(['x', 'y', 'g(x)'])] if rnd.random() < 0.6 else [ind + 'continue']
    if k == 'break':
      return [ind + 'if %s: break' % rnd.choice(['x', 'y'])] if rnd.random() < 0.6 else [ind + 'break']
    if k == 'await':
      return [ind + 'x = await g(x)']
    if k == 'if':
      r = [ind + 'if x:'] + block(d - 1, in_loop, I)
      if rnd.random() < 0.5:
        r += [ind + 'else:'] + block(d - 1, in_loop, I)
      return r
    if k in ('for', 'afor'):
      r = [ind + ('async ' if k == 'afor' else '') + 'for %s in %s:' % (rnd.choice(['i', 'j', 'x']), rnd.choice(['xs', 'g(x)', 'y']))] + block(d - 1, True, I)
      if rnd.random() < 0.3:
        r += [ind + 'else:'] + block(d - 1, in_loop, I)
      return r
    if k == 'while':
      return [ind + 'while %s:' % rnd.choice(['x', 'True', 'g(x)'])] + block(d - 1, True, I)
    if k in ('with', 'awith'):
      return [ind + ('async ' if k == 'awith' else '') + 'with g(x) as w:'] + block(d - 1, in_loop, I)
    if k in ('comp', 'acomp'):
      a = 'async ' if k == 'acomp' else ''
      return [ind + 'x = %s' % rnd.choice(['[i %sfor i in xs]' % a, '{i: j %sfor i in xs for j in i}' % a, '[i %sfor i in xs if i]' % a,
                                            '[[j %sfor j in i] for i in xs]' % a])]
    if k == 'try':
      r = [ind + 'try:'] + block(d - 1, in_loop, I)
      shape = rnd.choice(['except', 'finally', 'both', 'else'])
      if shape in ('except', 'both', 'else'):
        r += [ind + 'except %s:' % rnd.choice(['E', '(E, F) as e', 'Exception'])] + block(d - 1, in_loop, I)
      if shape == 'else':
        r += [ind + 'else:'] + block(d - 1, in_loop, I)
      if shape in ('finally', 'both'):
        r += [ind + 'finally:'] + block(d - 1, in_loop, I)
      return r
    return [ind + 'pass']
  body = block(depth, False, '  ')
  return ('async ' if is_async else '') + 'def f(x, y, xs):\n' + '\n'.join(body) + '\n'


def check_code(blocks, opcodes, oc, where, viol):
  """All clauses of C16 on one OrderedCode."""
  order = oc.order
  ops = list(oc.original_opcodes) if hasattr(oc, 'original_opcodes') else None
  ok = True

  def bad(what, cause=None):
    nonlocal ok
    ok = False
    viol(dict(kind='block-graph', what=what, where=where, **({'cause': cause} if cause else {})))

  # the 3.12 merge of an END_ASYNC_FOR block into the block of the JUMP_BACKWARD that closes its loop
  # (_remove_jmp_to_get_anext_and_merge): with two back jumps to one GET_ANEXT (e.g. an async comprehension with a
  # condition) the same END_ASYNC_FOR block is appended to two blocks -- known finding F16
  merged_twice = set()
  allops = []
  if order and order[0].code:
    o0 = order[0].code[0]
    while o0.prev is not None:
      o0 = o0.prev
    while o0 is not None:
      allops.append(o0)
      o0 = o0.next
  closers = {}
  for p_ in allops:
    t_ = getattr(p_, 'end_async_for_target', None)
    if t_ is not None:
      closers[id(t_)] = closers.get(id(t_), 0) + 1
  for b in order:
    for k, op in enumerate(b.code):
      if isinstance(op, opcodes.END_ASYNC_FOR) and closers.get(id(op), 0) >= 2:
        merged_twice.update(id(o) for o in b.code[k:])
  # blocks non-empty; each instruction of the order in exactly one block
  seen_ops = {}
  for b in order:
    if not b.code:
      bad('empty block %r' % b.id)
    for op in b.code:
      if id(op) in seen_ops:
        if id(op) in merged_twice:
          bad('instruction %d (%s) is in two blocks (END_ASYNC_FOR block merged into two loop-closing blocks)' % (op.index, op.name),
              cause='F16-end-async-for-block-merged-twice')
        else:
          bad('instruction %d (%s) is in two blocks' % (op.index, op.name))
      seen_ops[id(op)] = b
  # every instruction that control flow can reach from the first one (fall-through, jump targets, exception-handler targets --
  # computed on the instruction list itself, independently of the block edges) is in a block of the order
  if allops:
    reach, todo_ = set(), [allops[0]]
    while todo_:
      o_ = todo_.pop()
      if id(o_) in reach:
        continue
      reach.add(id(o_))
      if not o_.no_next() and o_.next is not None:
        todo_.append(o_.next)
      # real jumps only: the handler targets of the SETUP_* pseudo-instructions are followed by the VM when an exception is
      # raised, and whether such a handler is scheduled is decided elsewhere (block_target edges) -- not part of this clause
      if not o_.name.startswith('SETUP_'):
        for t_ in (getattr(o_, 'target', None), getattr(o_, 'end_async_for_target', None)):
          if t_ is not None:
            todo_.append(t_)
    in_order = {id(op) for b in order for op in b.code}
    lost = [o_ for o_ in allops if id(o_) in reach and id(o_) not in in_order
            and o_.name not in ('JUMP_BACKWARD', 'CLEANUP_THROW', 'JUMP_BACKWARD_NO_INTERRUPT')]
    if lost:
      bad('%d reachable instruction(s) are in no block of the execution order, e.g. %s at index %d (line %s)' % (
          len(lost), lost[0].name, lost[0].index, getattr(lost[0], 'line', '?')))
  # execution order lists every block once
  if len({id(b) for b in order}) != len(order):
    bad('a block is listed twice in the order')
  ids = {id(b) for b in order}
  if order:
    # at least one predecessor before each non-entry block
    pos = {id(b): i for i, b in enumerate(order)}
    for i, b in enumerate(order[1:], 1):
      if not any(id(p) in pos and pos[id(p)] < i for p in b.incoming):
        bad('block %d has no predecessor earlier in the order' % b.id)
    # closed under outgoing edges = every block reachable from the entry is listed
    for b in order:
      for n in b.outgoing:
        if id(n) not in ids:
          bad('block %d is reachable (edge from block %d) but not in the order' % (n.id, b.id))
      for n in b.incoming:
        if b not in n.outgoing:
          bad('incoming/outgoing mismatch at block %d' % b.id)
  first_ops = {id(b.code[0]) for b in order if b.code}
  for b in order:
    last = b.code[-1]
    for op in b.code:
      # every jump has a resolved target; every resolved target (of an analysed instruction) starts a block
      if op.has_known_jump() and op.target is None:
        bad('jump %s at %d has no resolved target' % (op.name, op.index))
      if op.target is not None and op is last and id(op.target) not in first_ops:
        # targets of a block's last instruction are followed by the VM
        if not isinstance(op.target, opcodes.GET_ANEXT) and not isinstance(op, (opcodes.SEND,)):
          bad('target of %s at %d (index %d) does not start a block of the order' % (op.name, op.index, op.target.index))
    # the fall-through successor is linked
    for a, c in zip(b.code, b.code[1:]):
      if a.next is not c and not (a.next is not None and isinstance(c, type(a.next)) and False):
        # blocks merged by the 3.12 async surgery may skip removed instructions
        if isinstance(c, opcodes.END_ASYNC_FOR) and isinstance(a.next, opcodes.JUMP_BACKWARD):
          continue   # the loop-closing JUMP_BACKWARD was removed and the END_ASYNC_FOR block appended (documented merge)
        if not any(isinstance(o, (opcodes.SEND, opcodes.GET_ANEXT, opcodes.END_SEND, opcodes.CLEANUP_THROW)) for o in b.code):
          bad('next-link broken inside block %d between %d and %d' % (b.id, a.index, c.index))
  return ok


def check_ops(ops, where, viol):
  """Instruction indices and next/prev links of the opcode list handed to the splitter."""
  for i, op in enumerate(ops):
    if op.index != i:
      viol(dict(kind='opcodes', what='instruction %d carries index %d' % (i, op.index), where=where))
      return
    nxt = ops[i + 1] if i + 1 < len(ops) else None
    prv = ops[i - 1] if i else None
    if op.next is not nxt or op.prev is not prv:
      viol(dict(kind='opcodes', what='next/prev link of instruction %d is inconsistent' % i, where=where))
      return
    if op.target is not None and not any(op.target is o for o in (ops[op.target.index],) if op.target.index < len(ops)):
      viol(dict(kind='opcodes', what='target of instruction %d is not an instruction of this code' % i, where=where))
      return


def check_cover(blocks, opcodes, dis_code, where, viol):
  """Each instruction is in exactly one block of the list that compute_order connects and orders."""
  import collections  # pylint: disable=g-import-not-at-top
  ops = opcodes.build_opcodes(dis_code)
  blocks.add_pop_block_targets(ops)
  pb = set()
  bl = blocks._split_bytecode(ops, pb, dis_code.python_version)
  if dis_code.python_version >= (3, 12):
    bl = blocks._remove_jump_back_block(bl)
    bl = blocks._remove_jmp_to_get_anext_and_merge(bl, pb)
  cnt = collections.Counter(id(o) for b in bl for o in b.code)
  runs, cur = [], []
  for o in ops:
    c = cnt[id(o)]
    if c > 1:
      # by design when one END_ASYNC_FOR block closes two back jumps: known finding F16
      homes = [b for b in bl if any(x is o for x in b.code)]
      ncl = lambda x: sum(1 for p_ in ops if getattr(p_, 'end_async_for_target', None) is x)
      f16 = all(any(isinstance(x, opcodes.END_ASYNC_FOR) and ncl(x) >= 2 and any(y is o for y in b.code[k:])
                    for k, x in enumerate(b.code)) for b in homes)
      viol(dict(kind='cover', cause='F16-end-async-for-block-merged-twice' if f16 else 'instruction-in-two-blocks',
                what='%s at %d is in %d blocks' % (o.name, o.index, c), where=where))
    if c == 0:
      cur.append(o)
    elif cur:
      runs.append(cur)
      cur = []
  if cur:
    runs.append(cur)
  for r in runs:
    names = [o.name for o in r]
    if (set(names) <= {'CLEANUP_THROW', 'JUMP_BACKWARD'} and names[-1] == 'JUMP_BACKWARD'
        and all(names[i + 1] == 'JUMP_BACKWARD' for i in range(len(names) - 1) if names[i] == 'CLEANUP_THROW')):
      # by design (_remove_jump_back_block): known finding F10
      viol(dict(kind='cover', cause='F10-send-exception-block-removed',
                what='%s at %d..%d are in no block (exception edge of a SEND loop / back jump to GET_ANEXT, removed on purpose)' % ('/'.join(names[:2]), r[0].index, r[-1].index),
                where=where))
    else:
      viol(dict(kind='cover', cause='instruction-in-no-block',
                what='instruction(s) %s at index %d..%d are in no basic block' % (','.join(names), r[0].index, r[-1].index), where=where))


def check_split(blocks, opcodes, ops, ver, where, viol):
  """The contract of _split_bytecode, evaluated natively (only under its precondition)."""
  if ver >= (3, 12) and any(isinstance(o, (opcodes.SEND, opcodes.GET_ANEXT)) for o in ops):
    return False
  got = blocks._split_bytecode(ops, set(), ver)
  flat = [o for b in got for o in b.code]
  if len(flat) != len(ops) or any(a is not b for a, b in zip(flat, ops)):
    viol(dict(kind='split', what='concatenation of the blocks differs from the bytecode (%d vs %d instructions)' % (len(flat), len(ops)), where=where))
  if any(not b.code for b in got):
    viol(dict(kind='split', what='empty block', where=where))
  starts = {id(b.code[0]) for b in got if b.code}
  for o in ops:
    if o.target is not None and id(o.target) not in starts:
      viol(dict(kind='split', what='target of %s at %d does not start a block' % (o.name, o.index), where=where))
      break
  return True


def main():
  mode, repo = sys.argv[1], sys.argv[2]
  payload = json.loads(sys.stdin.read() or '{}')
  tier = payload.get('tier', 'quick')
  common.load_cfg(repo)
  from pytype.blocks import blocks  # pylint: disable=g-import-not-at-top
  from pytype.pyc import opcodes, pyc  # pylint: disable=g-import-not-at-top
  from pytype.pyc import compiler  # pylint: disable=g-import-not-at-top
  violations = []

  def viol(v):
    if v.get('cause', '').startswith(('F10', 'F16')):
      if any(w.get('cause') == v['cause'] and w.get('kind') == v.get('kind') for w in violations):
        return
      violations.append(v)
      return
    if len([w for w in violations if not w.get('cause', '').startswith(('F10', 'F16'))]) < 10:
      violations.append(v)
  ver = (3, 12)
  files = sorted(glob.glob(os.path.join(STDLIB, '*.py')))
  files += sorted(glob.glob(os.path.join(STDLIB, 'asyncio', '*.py')))
  files += sorted(glob.glob(os.path.join(STDLIB, 'concurrent', 'futures', '*.py')))
  if tier == 'quick':
    pass
  else:
    for sub in ('email', 'json', 'logging', 'unittest', 'importlib', 'collections', 'multiprocessing', 'xml/etree', 'http'):
      files += sorted(glob.glob(os.path.join(STDLIB, sub, '*.py')))
  srcs = [('snippet%d' % i, s) for i, s in enumerate(SNIPPETS)]
  import random  # pylint: disable=g-import-not-at-top
  rnd = random.Random(payload.get('seed', 0))
  ngen = 400 if tier == 'quick' else 6000
  for i in range(ngen):
    srcs.append(('generated%d' % i, gen_program(rnd, depth=rnd.choice([2, 3, 3, 4]))))
  for f in files:
    try:
      srcs.append((os.path.relpath(f, STDLIB), open(f, encoding='utf-8').read()))
    except (UnicodeDecodeError, OSError):
      pass
  ncode = nsplit = nmod = 0
  orig_order = blocks._order_code
  for name, src in srcs:
    try:
      code = pyc.compile_src(src, name, ver, None)
    except Exception:  # pylint: disable=broad-except
      continue   # not compilable by this interpreter: outside the property's domain
    nmod += 1
    captured = []

    def spy(dis_code, captured=captured):
      ops = opcodes.build_opcodes(dis_code)
      blocks.add_pop_block_targets(ops)
      captured.append((dis_code, ops))
      blks = blocks.compute_order(ops, dis_code.python_version)
      return blocks.OrderedCode(dis_code.code, ops, blks)
    blocks._order_code = spy
    try:
      oc, graph = blocks.process_code(code)
    except Exception as e:  # pylint: disable=broad-except
      viol(dict(kind='crash', what='process_code raised %s: %s' % (type(e).__name__, e), where=name))
      continue
    finally:
      blocks._order_code = orig_order
    for dis_code, ops in captured:
      where = '%s:%s' % (name, dis_code.code.co_name)
      check_ops(ops, where, viol)
      check_cover(blocks, opcodes, dis_code, where, viol)
      # a separately built opcode list for the split contract (compute_order links the blocks it gets)
      ops2 = opcodes.build_opcodes(dis_code)
      blocks.add_pop_block_targets(ops2)
      if check_split(blocks, opcodes, ops2, ver, where, viol):
        nsplit += 1
    todo = [oc]
    while todo:
      c = todo.pop()
      ncode += 1
      check_code(blocks, opcodes, c, '%s:%s' % (name, c.name), viol)
      todo.extend(k for k in c.consts if isinstance(k, blocks.OrderedCode))
    if len(violations) >= 11:
      break
  print(json.dumps(dict(
      violations=violations,
      bounded=[dict(function='pyc.compile_src -> opcodes.build_opcodes -> blocks.process_code (whole pipeline, incl. the 3.12 async surgery)',
                    bound='%d modules (CPython 3.12 stdlib sample + %d hand-written snippets + %d randomly generated (a)sync functions with nested loops / try / with / comprehensions / jumps), every code object; all clauses of C16 evaluated' % (nmod, len(SNIPPETS), ngen),
                    cases=ncode),
               dict(function='blocks._split_bytecode contract evaluated natively under its precondition',
                    bound='same code objects without SEND/GET_ANEXT', cases=nsplit)],
      spec_validation=[],
      counts=dict(modules=nmod, code_objects=ncode, split=nsplit)), default=str))


if __name__ == '__main__':
  main()
