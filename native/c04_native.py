"""Native sweep for C04 (bounded): analysis output as a function of source and options.

mode `sweep`: the corpus is split into shards; every shard is analysed by several worker
processes that differ in PYTHONHASHSEED, in the order of the programs (= which other modules were
analysed earlier in the same process) and in loader reuse (fresh loader per program vs one loader
for the whole process).  For every program the stub text, the ordered error report and the pickled
stub bytes of all workers must be identical; the error report must be unique and sorted.
mode `worker`: one such process (reads its job from stdin, prints one JSON line).
"""
import hashlib
import json
import os
import subprocess
import sys

sys.path.insert(0, os.path.dirname(os.path.abspath(__file__)))
import common  # pylint: disable=g-import-not-at-top
import corpus  # pylint: disable=g-import-not-at-top
import stress_programs  # pylint: disable=g-import-not-at-top

PYVER = (3, 12)


def worker(repo, job):
  common.load_cfg(repo)
  import logging  # pylint: disable=g-import-not-at-top
  logging.disable(logging.CRITICAL)
  from pytype import config, io, load_pytd  # pylint: disable=g-import-not-at-top
  from pytype.imports import pickle_utils  # pylint: disable=g-import-not-at-top
  from pytype.pytd import serialize_ast  # pylint: disable=g-import-not-at-top
  progs = job['programs']
  order = list(range(len(progs)))
  if job['reverse']:
    order.reverse()
  shared = None
  out = {}
  for k in order:
    name, src = progs[k]
    options = config.Options.create(python_version=PYVER, typeshed=False)   # only the stubs bundled with pytype (no typeshed checkout in this sandbox)
    if job['reuse_loader']:
      if shared is None:
        shared = load_pytd.create_loader(options)
      loader = shared
    else:
      loader = load_pytd.create_loader(options)
    try:
      ret, pyi = io.generate_pyi(src, options, loader)
      errs = ret.context.errorlog.unique_sorted_errors()
      report = [[e.name, e.filename, e.line, str(e.message), str(e.details)] for e in errs]
      keys = [(e.filename or '', e.line) for e in errs]
      sorted_ok = all(a <= b for a, b in zip(keys, keys[1:]))
      reps = [e.get_unique_representation() + (e.traceback,) for e in errs]
      unique_ok = len(set(reps)) == len(reps)
      try:
        # exactly what io.write_pickle does: re-parse the printed stub into an exportable AST, then serialise it
        data = pickle_utils.Serialize(serialize_ast.PrepareForExport('m', ret.ast, loader), src_path='m.py', metadata=[])
        pk = hashlib.sha256(data).hexdigest()
      except Exception as e:  # pylint: disable=broad-except
        pk = 'pickle-error %s' % type(e).__name__
      out[name] = dict(pyi=pyi, errors=report, pickle=pk, sorted=sorted_ok, unique=unique_ok)
    except Exception as e:  # pylint: disable=broad-except
      out[name] = dict(crash='%s: %s' % (type(e).__name__, str(e)[:200]))
  print(json.dumps(out))


def memo_witness(repo, site):
  """A new process-wide memo on a function: look for two arguments that compare equal but on which the
  unmemoised function answers differently -- then the memoised answer depends on which was seen first."""
  common.load_cfg(repo)
  import importlib  # pylint: disable=g-import-not-at-top
  from pytype.pytd import pytd  # pylint: disable=g-import-not-at-top
  mod = importlib.import_module(site['file'][:-3].replace('/', '.'))
  obj = mod
  for part in site['func'].split('.'):
    obj = getattr(obj, part)
  raw = getattr(obj, '__wrapped__', None)
  if raw is None:
    return None
  a, b = pytd.NamedType('a'), pytd.NamedType('b')
  K, V = pytd.TypeParameter('K'), pytd.TypeParameter('V')
  L = lambda t: pytd.GenericType(pytd.NamedType('list'), (t,))
  S_ = lambda t: pytd.GenericType(pytd.NamedType('set'), (t,))
  c1 = pytd.Class('x', (), (), (), (), (), (), None, ())
  c2 = pytd.Class('x', (), (), (), (), (), (), None, (pytd.TemplateItem(K),))
  pairs = [(pytd.UnionType((a, b)), pytd.UnionType((b, a))),
           (pytd.UnionType((L(K), S_(V))), pytd.UnionType((S_(V), L(K)))),
           (L(pytd.UnionType((L(K), S_(V)))), L(pytd.UnionType((S_(V), L(K))))),
           (pytd.IntersectionType((a, b)), pytd.IntersectionType((b, a))),
           (pytd.ClassType('x', c1), pytd.ClassType('x', c2))]
  for x, y in pairs:
    if not (x == y and hash(x) == hash(y)):
      continue
    try:
      rx, ry = raw(x), raw(y)
    except Exception:  # pylint: disable=broad-except
      continue
    if repr(rx) != repr(ry):
      try:
        obj.cache_clear()
        first = obj(x)
        second = obj(y)
        shown = repr(second)
      except Exception as e:  # pylint: disable=broad-except
        shown = 'error %s' % e
      return dict(kind='history-dependent', cause='memo-on-coarse-equality',
                  what='%s::%s is memoised process-wide (%s) but is not a function of its key: for the equal arguments %r == %r the '
                       'unmemoised answers are %r and %r; after a call with the first, the memoised call with the second returns %s -- '
                       'the answer depends on what was analysed earlier in the process' % (
                           site['file'], site['func'], site['expr'], x, y, rx, ry, shown),
                  function=site['func'], args=[repr(x), repr(y)])
  return None


def main():
  mode, repo = sys.argv[1], sys.argv[2]
  payload = json.loads(sys.stdin.read() or '{}')
  if mode == 'worker':
    return worker(repo, payload)
  pre_violations = []
  for f in payload.get('failing') or []:
    site = f.get('site') or {}
    if str(site.get('kind', '')).startswith('memo:'):
      try:
        w = memo_witness(repo, site)
      except Exception as e:  # pylint: disable=broad-except
        w = None
      if w:
        pre_violations.append(w)
  tier = payload.get('tier', 'quick')
  seed = payload.get('seed', 0)
  progs = corpus.load(repo, stride=4 if tier == 'quick' else 1, extra_modules=corpus.BUNDLED)
  nshards = 8
  shards = [progs[i::nshards] for i in range(nshards)]
  # the hand-written collision/stress programs go into every shard (8 shards x configs = many hash seeds each)
  stress = list(stress_programs.PROGRAMS)
  for _n, _src in stress:
    compile(_src, _n, 'exec')      # a stress program that does not compile would silently drop out of the sweep
  progs = progs + stress
  configs = [dict(hashseed='0', reverse=False, reuse_loader=False),
             dict(hashseed=str(1 + seed), reverse=True, reuse_loader=True)]
  if tier != 'quick':
    configs += [dict(hashseed='12345', reverse=False, reuse_loader=True),
                dict(hashseed='4242', reverse=True, reuse_loader=False)]
  procs = []
  actual_seed = {}
  common.ensure_ext(repo)   # build once before the workers start
  for si, shard in enumerate(shards):
    for ci, cfg in enumerate(configs):
      # the first configuration is the common reference (seed 0); the others get a different hash seed in every shard
      hs = cfg['hashseed'] if ci == 0 else str(int(cfg['hashseed']) * 31 + si * 7 + 1)
      env = dict(os.environ, PYTHONHASHSEED=hs, PYTHONPATH=repo, PYTHONDONTWRITEBYTECODE='1')
      p = subprocess.Popen(['/venv/bin/python', '-B', os.path.abspath(__file__), 'worker', repo],
                           stdin=subprocess.PIPE, stdout=subprocess.PIPE, stderr=subprocess.PIPE, text=True, env=env, cwd='/')
      p.stdin.write(json.dumps(dict(programs=shard + stress, reverse=cfg['reverse'], reuse_loader=cfg['reuse_loader'])))
      p.stdin.close()
      procs.append((si, ci, p))
      actual_seed[(si, ci)] = hs
  results = {}
  violations = list(pre_violations)
  for si, ci, p in procs:
    outp = p.stdout.read()
    err = p.stderr.read()
    p.wait()
    try:
      results[(si, ci)] = json.loads(outp.strip().splitlines()[-1])
    except Exception:  # pylint: disable=broad-except
      raise RuntimeError('worker %d/%d failed: %s' % (si, ci, err[-1500:]))
  ncmp = 0
  nerr = 0
  srcs = dict(progs)
  for si in range(nshards):
    base = results[(si, 0)]
    for name, r0 in base.items():
      if 'crash' in r0:
        continue    # crashes are C15's subject, not C04's
      nerr += len(r0['errors'])
      if not r0['sorted'] or not r0['unique']:
        if len(violations) < 10:
          violations.append(dict(kind='error-report', what='reported errors are not %s' % ('sorted by position' if not r0['sorted'] else 'unique'),
                                 program=name, src=srcs[name], errors=r0['errors']))
      for ci in range(1, len(configs)):
        r1 = results[(si, ci)].get(name)
        ncmp += 1
        if r1 is None or 'crash' in r1:
          if len(violations) < 10:
            violations.append(dict(kind='nondeterministic', what='analysis succeeds under %r but fails under %r: %s' % (configs[0], configs[ci], (r1 or {}).get('crash')),
                                   program=name, src=srcs[name]))
          continue
        for field in ('pyi', 'errors', 'pickle'):
          if r0[field] != r1[field]:
            if len(violations) < 10:
              violations.append(dict(kind='nondeterministic', field=field,
                                     what='%s differs between %r and %r: %r vs %r' % (field, dict(configs[0], hashseed=actual_seed[(si, 0)]), dict(configs[ci], hashseed=actual_seed[(si, ci)]), str(r0[field])[:300], str(r1[field])[:300]),
                                     program=name, src=srcs[name]))
            break
  print(json.dumps(dict(
      violations=violations,
      bounded=[dict(function='io.generate_pyi + ErrorLog.unique_sorted_errors + serialize_ast/pickle_utils (whole pipeline)',
                    bound='%d programs (snippets of pytype\'s functional tests that need no typeshed) x %d process configurations '
                          '(PYTHONHASHSEED, program order = in-process history, fresh vs reused loader); stub text, ordered error report and pickled stub compared' % (
                              len(progs), len(configs)),
                    cases=ncmp)],
      spec_validation=[],
      counts=dict(programs=len(progs), comparisons=ncmp, errors=nerr)), default=str))


if __name__ == '__main__':
  main()
