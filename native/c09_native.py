"""Native sweep for C09: cfg.Program.is_reachable vs BFS over the recorded edges (compiled real sources)."""
import itertools
import json
import os
import random
import sys

sys.path.insert(0, os.path.dirname(os.path.abspath(__file__)))
import common  # pylint: disable=g-import-not-at-top


def closure(n, edges):
  adj = [[] for _ in range(n)]
  for a, b in edges:
    adj[a].append(b)
  reach = []
  for s in range(n):
    seen = {s}
    todo = [s]
    while todo:
      x = todo.pop()
      for y in adj[x]:
        if y not in seen:
          seen.add(y)
          todo.append(y)
    reach.append(seen)
  return reach


def main():
  mode, repo = sys.argv[1], sys.argv[2]
  payload = json.loads(sys.stdin.read() or '{}')
  tier = payload.get('tier', 'quick')
  rnd = random.Random(payload.get('seed', 0))
  cfg = common.load_cfg(repo)
  violations = []
  comparisons = 0
  histories = 0

  def run(history, check_every):
    """history: list of ('node',) | ('edge', a, b).  Compares all pairs after every `check_every` steps."""
    nonlocal comparisons, histories
    histories += 1
    p = cfg.Program()
    nodes, edges = [], []
    for step, op in enumerate(history):
      if op[0] == 'node':
        nodes.append(p.NewCFGNode('n%d' % len(nodes)))
      else:
        a, b = op[1], op[2]
        nodes[a].ConnectTo(nodes[b])
        edges.append((a, b))
      if (step + 1) % check_every == 0 or step == len(history) - 1:
        reach = closure(len(nodes), edges)
        for a in range(len(nodes)):
          for b in range(len(nodes)):
            comparisons += 1
            got = p.is_reachable(src=nodes[a], dst=nodes[b])
            if got != (b in reach[a]):
              if len(violations) < 10:
                violations.append(dict(
                    kind='reachability', what='after %d steps is_reachable(n%d -> n%d) = %s but a path %s' % (
                        step + 1, a, b, got, 'exists' if b in reach[a] else 'does not exist'),
                    history=[list(o) for o in history[:step + 1]] if len(history) <= 60 else 'len=%d' % len(history),
                    nodes=len(nodes), edges=len(edges)))
              return

  # exhaustive small: 3 nodes, every sequence of <=4 edge insertions (incl. self and duplicate edges)
  pairs = list(itertools.product(range(3), repeat=2))
  for k in range(0, 4 if tier == 'quick' else 5):
    for es in itertools.product(pairs, repeat=k):
      run([('node',)] * 3 + [('edge', a, b) for a, b in es], 1)
  # interleaved creation/insertion, crossing the 64-node bucket boundary
  for trial in range(12 if tier == 'quick' else 120):
    n = rnd.choice([5, 63, 64, 65, 70, 129, 140, 200])
    hist = []
    cur = 0
    while cur < n:
      if cur < 2 or rnd.random() < 0.45:
        hist.append(('node',))
        cur += 1
      else:
        a, b = rnd.randrange(cur), rnd.randrange(cur)
        if rnd.random() < 0.3:
          b = (a + 64 * rnd.choice([-1, 1])) % cur if cur > 64 else b   # same bit position, other bucket
        hist.append(('edge', a, b))
    for _ in range(n // 2):
      hist.append(('edge', rnd.randrange(n), rnd.randrange(n)))
    run(hist, max(1, len(hist) // 6))
  # the user of reachability that C09 names: Variable.Bindings(viewpoint) (Variable::Prune).  A variable with ONE binding is
  # visible from a viewpoint iff one of the nodes it was bound at reaches the viewpoint; with several bindings the visible ones
  # are found by walking backwards from the viewpoint and stopping at the first binding on every path.
  prune_checks = 0

  def run_prune(n, edges, binds):
    nonlocal prune_checks
    p = cfg.Program()
    nodes = [p.NewCFGNode('n%d' % i) for i in range(n)]
    for a, b in edges:
      nodes[a].ConnectTo(nodes[b])
    reach = closure(n, edges)
    pred = [[] for _ in range(n)]
    for a, b in edges:
      if a != b:
        pred[b].append(a)
    for where_list in binds:            # one variable per entry: [(data, node), ...]
      v = p.NewVariable()
      for data, w in where_list:
        v.AddBinding(data, [], nodes[w])
      datas = sorted({d for d, _ in where_list})
      for vp in range(n):
        prune_checks += 1
        got = sorted(b.data for b in v.Bindings(nodes[vp]))
        if len(datas) == 1:
          want = datas if any(vp in reach[w] for _, w in where_list) else []
        else:
          want, seen, todo = set(), set(), [vp]
          while todo:
            x = todo.pop()
            if x in seen:
              continue
            seen.add(x)
            here = [d for d, w in where_list if w == x]
            if here:
              want.update(here)
              continue
            todo.extend(pred[x])
          want = sorted(want)
        if got != want and len(violations) < 10:
          violations.append(dict(kind='prune', what='variable bound %r: Bindings(n%d) = %r but the graph (edges %r) gives %r' % (
              where_list, vp, got, edges, want), nodes=n, edges=len(edges)))
          return
  for trial in range(300 if tier == 'quick' else 4000):
    n = rnd.choice([2, 3, 4, 5, 6])
    edges = [(rnd.randrange(n), rnd.randrange(n)) for _ in range(rnd.randrange(0, 2 * n))]
    binds = []
    for _ in range(3):
      k = rnd.choice([1, 1, 1, 2, 3])
      if k == 1:
        binds.append([('A', rnd.randrange(n)) for _ in range(rnd.choice([1, 1, 2]))])     # one binding, possibly at two nodes
      else:
        binds.append([(rnd.choice('ABC'), rnd.randrange(n)) for _ in range(k)])
    run_prune(n, edges, binds)
    if len(violations) >= 10:
      break
  print(json.dumps(dict(
      violations=violations,
      bounded=[dict(function='Variable.Bindings(viewpoint) = Variable::Prune (user of reachability)', bound='random graphs of <=6 nodes (edges in any direction incl. back edges), 3 variables each, every viewpoint', cases=prune_checks),
               dict(function='Program.NewCFGNode / CFGNode.ConnectTo / Program.is_reachable (compiled extension)',
                    bound='all histories of <=%d edges over 3 nodes; %d random interleaved histories up to 200 nodes (multi-bucket), all ordered pairs vs BFS' % (
                        3 if tier == 'quick' else 4, 12 if tier == 'quick' else 120), cases=comparisons)],
      spec_validation=[dict(spec='R (bit matrix view) and the closure statement vs BFS over the recorded edge list')],
      counts=dict(histories=histories, comparisons=comparisons))))


if __name__ == '__main__':
  main()
