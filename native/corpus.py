"""Program corpus for the VM-level sweeps: the source snippets of pytype's own functional tests.

Extracted mechanically on every run from <repo>/pytype/tests/*.py: the first string argument of
self.Check / CheckWithErrors / Infer / InferWithErrors / assertNoCrash calls (dedented).  Snippets
that import modules other than typing/__future__/builtins are dropped (typeshed is empty in this
sandbox).  The corpus is data for bounded sweeps only; nothing is proved from it.
"""
import ast
import glob
import os
import re
import textwrap

_CALLS = ('Check', 'CheckWithErrors', 'Infer', 'InferWithErrors', 'assertNoCrash')
_IMPORT = re.compile(r'^\s*(?:from\s+([\w.]+)\s+import|import\s+([\w.]+))', re.M)
_OK_MODULES = {'typing', '__future__', 'builtins', 'typing_extensions'}


def _ok(src, extra=()):
  for m in _IMPORT.finditer(src):
    mod = (m.group(1) or m.group(2)).split('.')[0]
    if mod not in _OK_MODULES and mod not in extra:
      return False
  return True


# modules whose stubs are bundled with pytype (usable with Options(typeshed=False))
BUNDLED = {'enum', 'collections', 'attr', 'attrs', 'mypy_extensions'}


def load(repo, limit=None, stride=1, extra_modules=()):
  out = []
  seen = set()
  for path in sorted(glob.glob(os.path.join(repo, 'pytype', 'tests', 'test_*.py'))):
    try:
      tree = ast.parse(open(path, encoding='utf-8').read())
    except SyntaxError:
      continue
    for node in ast.walk(tree):
      if not (isinstance(node, ast.Call) and isinstance(node.func, ast.Attribute) and node.func.attr in _CALLS):
        continue
      args = list(node.args)
      if node.func.attr == 'assertNoCrash':
        args = args[1:]
      if not args or not isinstance(args[0], ast.Constant) or not isinstance(args[0].value, str):
        continue
      src = textwrap.dedent(args[0].value).lstrip('\n')
      if not src.strip() or src in seen or not _ok(src, extra_modules):
        continue
      try:
        compile(src, '<corpus>', 'exec')
      except (SyntaxError, ValueError):
        continue
      seen.add(src)
      out.append(('%s:%d' % (os.path.basename(path), node.lineno), src))
  out = out[::stride]
  return out[:limit] if limit else out
